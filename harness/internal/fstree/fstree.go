// Package fstree holds the directory-tree side of the harness: a JSON-serialisable tree
// description (Spec) with a rapid generator, its expansion into a consistent tree model (Node),
// a materialiser that builds the tree on disk with plain syscalls, a recursive
// lstat/readlink/listxattr/rdev/content snapshot, and a structural diff that names
// (path, node type, field). It knows nothing about desync.
//
// Used by C05 (round trips) and meant for C18 (before/after snapshots of a sandbox).
package fstree

import (
	"bytes"
	"fmt"
	"sort"

	"verifharness/internal/gen"
)

// Kinds of filesystem objects (Spec.Kind, Node.Kind).
const (
	Dir     = "dir"
	File    = "file"
	Symlink = "symlink"
	Chr     = "chr"
	Blk     = "blk"
	Fifo    = "fifo"
	Sock    = "sock"
)

// Ranges of the time stamps an ext4 file system with 256-byte inodes stores (34-bit seconds
// biased by -2^31): 1901-12-13 .. 2446-05-10.
const (
	MinSec = -1 << 31
	MaxSec = 1<<34 - 1<<31 - 1
)

// XA is one extended attribute of a Spec (value as bytes: JSON base64).
type XA struct {
	K string `json:"k"`
	V []byte `json:"v"`
}

// Spec describes one generated filesystem object. Names and targets are bytes (JSON would
// mangle strings that are not UTF-8). Whatever a shrunk or hand-written Spec contains, Expand
// turns it into a legal tree.
type Spec struct {
	Name   []byte `json:"name,omitempty"`
	Kind   string `json:"kind"`
	Perm   uint32 `json:"perm"` // 0..07777
	UID    uint32 `json:"uid"`
	GID    uint32 `json:"gid"`
	Sec    int64  `json:"sec"`             // mtime, seconds since the epoch (may be negative)
	Nsec   int64  `json:"nsec"`            // 0..999999999
	Epoch  bool   `json:"epoch,omitempty"` // mtime is exactly the Unix epoch (Sec and Nsec are ignored)
	Xattrs []XA   `json:"xattrs,omitempty"`
	Size   int    `json:"size,omitempty"` // file: content length
	Seed   uint64 `json:"seed,omitempty"` // file: content seed
	Fill   string `json:"fill,omitempty"` // file: "" random | "zero" | "text"
	Target []byte `json:"target,omitempty"`
	Major  uint32 `json:"major,omitempty"`
	Minor  uint32 `json:"minor,omitempty"`
	Kids   []Spec `json:"kids,omitempty"`
	Bulk   *Bulk  `json:"bulk,omitempty"` // dir: N more children expanded from a seed
}

// Bulk stands for N seeded children of a directory, so that a fan-out of 3000 stays a one-line
// case description.
type Bulk struct {
	N      int    `json:"n"`
	Scheme string `json:"scheme"` // seq | mix | long (255-byte names)
	Seed   uint64 `json:"seed"`
}

// Xattr is one extended attribute of a Node.
type Xattr struct {
	Key string
	Val []byte
}

// Node is one filesystem object of the tree model: the expanded form of a Spec and also what
// Snapshot returns. Kids are sorted bytewise by name, Xattrs by key.
type Node struct {
	Name         string // "" for the root
	Kind         string
	Perm         uint32 // st_mode & 07777
	UID, GID     uint32
	Sec, Nsec    int64 // mtime
	Xattrs       []Xattr
	Data         []byte // File
	Target       string // Symlink
	Major, Minor uint32 // Chr, Blk
	Kids         []*Node

	// filled by Snapshot only; compared by Diff only when DiffOptions.Identity is set
	Ino         uint64
	Nlink       uint64
	CSec, CNsec int64
}

// Rng is the splitmix64 generator used to expand seeds (deterministic, no math/rand).
type Rng uint64

func (s *Rng) Next() uint64 {
	*s += 0x9e3779b97f4a7c15
	z := uint64(*s)
	z = (z ^ (z >> 30)) * 0xbf58476d1ce4e5b9
	z = (z ^ (z >> 27)) * 0x94d049bb133111eb
	return z ^ (z >> 31)
}

// NameBytes makes n arbitrary bytes other than NUL and '/'.
func NameBytes(n int, r *Rng) []byte {
	b := make([]byte, n)
	for i := range b {
		c := byte(r.Next()>>11)%254 + 1 // 1..254
		if c >= '/' {
			c++ // skip '/': 1..46, 48..255
		}
		b[i] = c
	}
	return b
}

func bulkKids(b Bulk) []Spec {
	out := make([]Spec, 0, b.N)
	for i := 0; i < b.N; i++ {
		r := Rng(b.Seed ^ uint64(i+1)*0xd6e8feb86659fd93)
		v := r.Next()
		var name []byte
		switch b.Scheme {
		case "seq":
			name = []byte(fmt.Sprintf("%07d", i))
		case "long":
			name = NameBytes(255, &r)
		default: // mix
			name = NameBytes(3+int(v>>40)%38, &r)
		}
		if b.Scheme != "seq" { // unique: the index in the last three bytes
			l := len(name)
			name[l-3] = 0x80 | byte(i>>14)&0x7f
			name[l-2] = 0x80 | byte(i>>7)&0x7f
			name[l-1] = 0x80 | byte(i)&0x7f
		}
		s := Spec{Name: name, Perm: uint32(v>>8) & 0o7777, UID: uint32(r.Next()), GID: uint32(r.Next()),
			Sec: int64(r.Next() % (1 << 32)), Nsec: int64(r.Next() % 1e9)}
		switch k := v % 20; {
		case k < 12:
			s.Kind = File
			if v>>20&3 != 0 {
				s.Size = int(v>>24) % 64
			}
			s.Seed = v
		case k < 15:
			s.Kind = Symlink
			s.Target = NameBytes(1+int(v>>24)%30, &r)
		case k < 18:
			s.Kind = Dir
		case k == 18:
			s.Kind = Chr
			s.Major, s.Minor = uint32(v>>24)&0xfff, uint32(v>>36)&0xfffff
		default:
			s.Kind = Blk
			s.Major, s.Minor = uint32(v>>24)&0xfff, uint32(v>>36)&0xfffff
		}
		out = append(out, s)
	}
	return out
}

// CleanName makes a legal file name of b: 1..255 bytes, no NUL, no '/', not "." or "..".
func CleanName(b []byte) string {
	if len(b) > 255 {
		b = b[:255]
	}
	c := append([]byte(nil), b...)
	for i := range c {
		if c[i] == 0 || c[i] == '/' {
			c[i] = '_'
		}
	}
	s := string(c)
	switch s {
	case "", ".", "..":
		s += "_"
	}
	return s
}

func validKind(k string) bool {
	switch k {
	case Dir, File, Symlink, Chr, Blk, Fifo, Sock:
		return true
	}
	return false
}

// Limits applied by Expand.
const (
	MaxFileSize   = 4 << 20
	MaxTargetLen  = 4000
	MaxBulk       = 20000
	MaxXattrBytes = 3600 // names + values + 32 per attribute
	MaxDepth      = 8
)

// Expand turns a Spec into a consistent tree: names legal and unique per directory, ranges
// clipped (owner 2^32-1 means "unchanged" to chown and is mapped to 2^32-2; mtime is clipped to
// the ext4 range and the exact epoch becomes epoch+1ns unless Spec.Epoch asks for it), children sorted by name, xattrs sorted
// by key with unique keys. The root is always a directory.
func Expand(s Spec) *Node {
	s.Kind = Dir
	return expand(s, true, 0)
}

func expand(s Spec, isRoot bool, depth int) *Node {
	n := &Node{Kind: s.Kind, Perm: s.Perm & 0o7777, UID: s.UID, GID: s.GID, Sec: s.Sec, Nsec: s.Nsec}
	if !validKind(n.Kind) {
		n.Kind = File
	}
	if !isRoot {
		n.Name = CleanName(s.Name)
	}
	if n.Nsec < 0 || n.Nsec > 999_999_999 {
		n.Nsec = ((n.Nsec % 1e9) + 1e9) % 1e9
	}
	if n.Sec <= MinSec { // the kernel stores the two end points of the range with nsec = 0
		n.Sec, n.Nsec = MinSec, 0
	}
	if n.Sec >= MaxSec {
		n.Sec, n.Nsec = MaxSec, 0
	}
	if n.Sec == 0 && n.Nsec == 0 {
		n.Nsec = 1
	}
	if s.Epoch { // only on request: archivers treat the exact epoch as "no time"
		n.Sec, n.Nsec = 0, 0
	}
	if n.UID == 1<<32-1 {
		n.UID--
	}
	if n.GID == 1<<32-1 {
		n.GID--
	}
	seen := map[string]bool{}
	room := MaxXattrBytes
	for _, x := range s.Xattrs {
		k := string(bytes.ReplaceAll([]byte(x.K), []byte{0}, []byte{'_'}))
		if k == "" || seen[k] || len(k) > 255 {
			continue
		}
		if room -= len(k) + len(x.V) + 32; room < 0 { // ext4: in-inode space plus one block for all attributes
			break
		}
		seen[k] = true
		n.Xattrs = append(n.Xattrs, Xattr{Key: k, Val: append([]byte{}, x.V...)})
	}
	sort.Slice(n.Xattrs, func(i, j int) bool { return n.Xattrs[i].Key < n.Xattrs[j].Key })
	switch n.Kind {
	case File:
		sz := s.Size
		if sz < 0 {
			sz = 0
		}
		if sz > MaxFileSize {
			sz = MaxFileSize
		}
		switch s.Fill {
		case "zero":
			n.Data = make([]byte, sz)
		case "text":
			n.Data = gen.Expand([]gen.Piece{{Kind: "text", Len: sz, Seed: s.Seed}})
		default:
			n.Data = gen.RandBytes(sz, s.Seed)
		}
	case Symlink:
		t := bytes.ReplaceAll(s.Target, []byte{0}, []byte{'_'})
		if len(t) == 0 {
			t = []byte("t")
		}
		if len(t) > MaxTargetLen {
			t = t[:MaxTargetLen]
		}
		n.Target = string(t)
		n.Perm = 0o777 // Linux: a symlink's mode is always lrwxrwxrwx
	case Chr, Blk:
		n.Major, n.Minor = s.Major&0xfff, s.Minor&0xfffff
	case Dir:
		names := map[string]bool{}
		add := func(k Spec) {
			if depth >= MaxDepth && k.Kind == Dir {
				k.Kids, k.Bulk = nil, nil
			}
			c := expand(k, false, depth+1)
			if names[c.Name] {
				return
			}
			names[c.Name] = true
			n.Kids = append(n.Kids, c)
		}
		for _, k := range s.Kids {
			add(k)
		}
		if s.Bulk != nil && s.Bulk.N > 0 {
			b := *s.Bulk
			if b.N > MaxBulk {
				b.N = MaxBulk
			}
			for _, k := range bulkKids(b) {
				add(k)
			}
		}
		sort.Slice(n.Kids, func(i, j int) bool { return n.Kids[i].Name < n.Kids[j].Name })
	}
	return n
}

// IsEpoch reports whether the node's mtime is exactly the Unix epoch.
func (n *Node) IsEpoch() bool { return n.Sec == 0 && n.Nsec == 0 }

// Clone returns a deep copy (Data and xattr values are shared: they are never modified).
func (n *Node) Clone() *Node {
	c := *n
	c.Xattrs = append([]Xattr(nil), n.Xattrs...)
	c.Kids = make([]*Node, len(n.Kids))
	for i, k := range n.Kids {
		c.Kids[i] = k.Clone()
	}
	return &c
}

// Type is the node-type label used in failure signatures: "root" for the root, else the kind.
func TypeLabel(n *Node, isRoot bool) string {
	if isRoot {
		return "root"
	}
	return n.Kind
}

// Entry is one node of a flattened tree.
type Entry struct {
	Path string // "." for the root, else slash-joined names ("a/b")
	Node *Node
	Root bool
}

// Flatten lists the tree depth first, parents before children, children in name order: the
// order in which a sorted walk (and therefore an archive made from it) visits the nodes.
func Flatten(root *Node) []Entry {
	var out []Entry
	var walk func(n *Node, p string)
	walk = func(n *Node, p string) {
		out = append(out, Entry{Path: p, Node: n, Root: n == root})
		for _, k := range n.Kids {
			kp := k.Name
			if n != root {
				kp = p + "/" + k.Name
			}
			walk(k, kp)
		}
	}
	walk(root, ".")
	return out
}

// Shape summarises a tree for evidence and class labels.
type Shape struct {
	Nodes, Dirs, MaxFan, Depth, MaxName int
	Kinds                               map[string]int
	Xattrs, XattrNodes                  int
	EmptyDirs, EmptyFiles               int
	MaxFile                             int
	DirsWith2                           int // directories with >= 2 children
	SetID                               int // nodes with a setuid/setgid/sticky bit
	NonRootOwner                        int // nodes with uid != 0 or gid != 0
	HighByteNames                       int // names with a byte >= 0x80
	SpaceNames                          int // names with a space
	Pre1970, Post2262                   int // mtime < 0 / mtime >= 2^63 ns
	EpochNodes                          int // mtime exactly the epoch
	EpochKinds                          map[string]int
	// EpochDirThenSibling counts non-empty directories with an epoch mtime whose parent has a
	// non-epoch mtime and gets a further entry after them (in name order, the order of a walk)
	EpochDirThenSibling int
	Bytes               int64
}

const post2262Sec = 9223372036 // 2^63 ns = 9223372036.854775808 s

// Post2262 reports whether the time stamp is at or beyond 2^63 ns after the epoch.
func Post2262(sec, nsec int64) bool {
	return sec > post2262Sec || (sec == post2262Sec && nsec >= 854775808)
}

func ShapeOf(root *Node) *Shape {
	sh := &Shape{Kinds: map[string]int{}, EpochKinds: map[string]int{}}
	var walk func(n *Node, depth int)
	walk = func(n *Node, depth int) {
		sh.Nodes++
		if depth > sh.Depth {
			sh.Depth = depth
		}
		if len(n.Name) > sh.MaxName {
			sh.MaxName = len(n.Name)
		}
		for i := 0; i < len(n.Name); i++ {
			if n.Name[i] >= 0x80 {
				sh.HighByteNames++
				break
			}
		}
		if bytes.IndexByte([]byte(n.Name), ' ') >= 0 {
			sh.SpaceNames++
		}
		sh.Xattrs += len(n.Xattrs)
		if len(n.Xattrs) > 0 {
			sh.XattrNodes++
		}
		if n.Perm&0o7000 != 0 {
			sh.SetID++
		}
		if n.UID != 0 || n.GID != 0 {
			sh.NonRootOwner++
		}
		if n.Sec < 0 {
			sh.Pre1970++
		}
		if Post2262(n.Sec, n.Nsec) {
			sh.Post2262++
		}
		if n.IsEpoch() {
			sh.EpochNodes++
			sh.EpochKinds[n.Kind]++
		}
		if n.Kind == Dir && !n.IsEpoch() {
			for i, k := range n.Kids {
				if k.Kind == Dir && k.IsEpoch() && len(k.Kids) > 0 && i+1 < len(n.Kids) {
					sh.EpochDirThenSibling++
				}
			}
		}
		sh.Kinds[n.Kind]++
		switch n.Kind {
		case Dir:
			sh.Dirs++
			f := len(n.Kids)
			if f > sh.MaxFan {
				sh.MaxFan = f
			}
			if f == 0 {
				sh.EmptyDirs++
			}
			if f >= 2 {
				sh.DirsWith2++
			}
		case File:
			if len(n.Data) == 0 {
				sh.EmptyFiles++
			}
			if len(n.Data) > sh.MaxFile {
				sh.MaxFile = len(n.Data)
			}
			sh.Bytes += int64(len(n.Data))
		}
		for _, k := range n.Kids {
			walk(k, depth+1)
		}
	}
	walk(root, 0)
	return sh
}
