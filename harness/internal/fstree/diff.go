package fstree

import (
	"bytes"
	"fmt"
)

// Difference is one field in which two trees differ.
type Difference struct {
	Path  string // "." for the root, else slash-joined names
	Type  string // node-type label of the wanted node (of the found one for "extra"): root dir file symlink chr blk fifo sock
	Field string // missing extra type mode-perm mode-setid uid gid mtime[-post2262] target xattrs device content (ino nlink ctime)
	Msg   string
}

func (d Difference) String() string {
	return fmt.Sprintf("%q (%s): %s: %s", d.Path, d.Type, d.Field, d.Msg)
}

// Key identifies the (path, field) pair of a difference.
func (d Difference) Key() string { return d.Path + "\x00" + d.Field }

// DiffOptions restrict the comparison.
type DiffOptions struct {
	SkipRootMeta   bool            // do not compare mode, owner, mtime and xattrs of the root
	Skip           map[string]bool // field names not to compare ("mtime" covers its sub-classes)
	MtimeSeconds   bool            // compare whole seconds only (want floor == got floor)
	SkipEpochMtime bool            // do not compare the mtime of a node whose own wanted mtime is exactly the epoch ("no time")
	Identity       bool            // also compare inode number, link count and ctime (before/after snapshots)
	Max            int             // stop after this many differences (0 = 200)
}

// MtimeField names the mtime field of a wanted time stamp: values at or beyond 2^63 ns, which
// Go's int64 nanosecond arithmetic cannot hold although the catar field (uint64) and ext4 can,
// get their own label so that their failures can be told apart.
func MtimeField(sec, nsec int64) string {
	if Post2262(sec, nsec) {
		return "mtime-post2262"
	}
	return "mtime"
}

// Diff compares got with want node by node (children matched by name) and returns the
// differences in walk order.
func Diff(want, got *Node, o DiffOptions) []Difference {
	if o.Max == 0 {
		o.Max = 200
	}
	var out []Difference
	diffNode(want, got, ".", true, &o, &out)
	return out
}

func xattrsEqual(a, b []Xattr) bool {
	if len(a) != len(b) {
		return false
	}
	for i := range a {
		if a[i].Key != b[i].Key || !bytes.Equal(a[i].Val, b[i].Val) {
			return false
		}
	}
	return true
}

func fmtXattrs(xs []Xattr) string {
	var b bytes.Buffer
	b.WriteByte('{')
	for i, x := range xs {
		if i > 0 {
			b.WriteByte(' ')
		}
		v := x.Val
		if len(v) > 16 {
			fmt.Fprintf(&b, "%q=%q…(%d bytes)", x.Key, v[:16], len(v))
		} else {
			fmt.Fprintf(&b, "%q=%q", x.Key, v)
		}
	}
	b.WriteByte('}')
	return b.String()
}

func diffNode(w, g *Node, path string, isRoot bool, o *DiffOptions, out *[]Difference) {
	typ := TypeLabel(w, isRoot)
	add := func(field, format string, a ...any) {
		base := field
		if len(field) > 5 && field[:5] == "mtime" {
			base = "mtime"
		}
		if o.Skip[base] || o.Skip[field] {
			return
		}
		if len(*out) < o.Max {
			*out = append(*out, Difference{path, typ, field, fmt.Sprintf(format, a...)})
		}
	}
	if w.Kind != g.Kind {
		add("type", "want %s got %s", w.Kind, g.Kind)
		return // the other fields are not comparable
	}
	if !(isRoot && o.SkipRootMeta) {
		if w.Perm&0o777 != g.Perm&0o777 {
			add("mode-perm", "want %04o got %04o", w.Perm, g.Perm)
		}
		if w.Perm&0o7000 != g.Perm&0o7000 {
			add("mode-setid", "want %04o got %04o", w.Perm, g.Perm)
		}
		if w.UID != g.UID {
			add("uid", "want %d got %d", w.UID, g.UID)
		}
		if w.GID != g.GID {
			add("gid", "want %d got %d", w.GID, g.GID)
		}
		if o.SkipEpochMtime && w.IsEpoch() {
			// the node's own time only: its ancestors' and neighbours' are compared as usual
		} else if w.Sec != g.Sec || (!o.MtimeSeconds && w.Nsec != g.Nsec) {
			add(MtimeField(w.Sec, w.Nsec), "want %d.%09d got %d.%09d", w.Sec, w.Nsec, g.Sec, g.Nsec)
		}
		if !xattrsEqual(w.Xattrs, g.Xattrs) {
			add("xattrs", "want %s got %s", fmtXattrs(w.Xattrs), fmtXattrs(g.Xattrs))
		}
	}
	switch w.Kind {
	case File:
		if !bytes.Equal(w.Data, g.Data) {
			i := 0
			for i < len(w.Data) && i < len(g.Data) && w.Data[i] == g.Data[i] {
				i++
			}
			add("content", "want %d bytes got %d bytes, first difference at offset %d", len(w.Data), len(g.Data), i)
		}
	case Symlink:
		if w.Target != g.Target {
			add("target", "want %q got %q", w.Target, g.Target)
		}
	case Chr, Blk:
		if w.Major != g.Major || w.Minor != g.Minor {
			add("device", "want %d:%d got %d:%d", w.Major, w.Minor, g.Major, g.Minor)
		}
	}
	if o.Identity {
		if w.Ino != g.Ino {
			add("ino", "want %d got %d", w.Ino, g.Ino)
		}
		if w.Nlink != g.Nlink && w.Kind != Dir {
			add("nlink", "want %d got %d", w.Nlink, g.Nlink)
		}
		if w.CSec != g.CSec || w.CNsec != g.CNsec {
			add("ctime", "want %d.%09d got %d.%09d", w.CSec, w.CNsec, g.CSec, g.CNsec)
		}
	}
	if w.Kind != Dir {
		return
	}
	// children: merge of the two name-sorted lists
	i, j := 0, 0
	join := func(name string) string {
		if isRoot {
			return name
		}
		return path + "/" + name
	}
	for i < len(w.Kids) || j < len(g.Kids) {
		switch {
		case j >= len(g.Kids) || (i < len(w.Kids) && w.Kids[i].Name < g.Kids[j].Name):
			if !o.Skip["missing"] && len(*out) < o.Max {
				*out = append(*out, Difference{join(w.Kids[i].Name), w.Kids[i].Kind, "missing", "entry is missing"})
			}
			i++
		case i >= len(w.Kids) || g.Kids[j].Name < w.Kids[i].Name:
			if !o.Skip["extra"] && len(*out) < o.Max {
				*out = append(*out, Difference{join(g.Kids[j].Name), g.Kids[j].Kind, "extra", "entry that the source does not have"})
			}
			j++
		default:
			diffNode(w.Kids[i], g.Kids[j], join(w.Kids[i].Name), false, o, out)
			i++
			j++
		}
	}
}
