package fstree

import (
	"bytes"
	"fmt"
	"os"
	"path/filepath"
	"sort"

	"golang.org/x/sys/unix"
)

func kindBits(kind string) uint32 {
	switch kind {
	case Dir:
		return unix.S_IFDIR
	case Symlink:
		return unix.S_IFLNK
	case Chr:
		return unix.S_IFCHR
	case Blk:
		return unix.S_IFBLK
	case Fifo:
		return unix.S_IFIFO
	case Sock:
		return unix.S_IFSOCK
	}
	return unix.S_IFREG
}

func kindOf(mode uint32) string {
	switch mode & unix.S_IFMT {
	case unix.S_IFDIR:
		return Dir
	case unix.S_IFLNK:
		return Symlink
	case unix.S_IFCHR:
		return Chr
	case unix.S_IFBLK:
		return Blk
	case unix.S_IFIFO:
		return Fifo
	case unix.S_IFSOCK:
		return Sock
	}
	return File
}

// Materialise creates the tree n at path p (which must not exist; its parent must) with plain
// syscalls: children first, then owner, mode and finally the time stamps of each object, so
// that what is on disk afterwards is what the Node says (subject to what the file system can
// store: take a Snapshot to learn what really is there). Needs root for owners, devices and
// trusted.* attributes. Device nodes are created but never opened.
func Materialise(p string, n *Node) error {
	switch n.Kind {
	case Dir:
		if err := unix.Mkdir(p, 0o700); err != nil {
			return fmt.Errorf("mkdir %q: %w", p, err)
		}
		for _, k := range n.Kids {
			if err := Materialise(filepath.Join(p, k.Name), k); err != nil {
				return err
			}
		}
	case File:
		if err := os.WriteFile(p, n.Data, 0o600); err != nil {
			return err
		}
	case Symlink:
		if err := unix.Symlink(n.Target, p); err != nil {
			return fmt.Errorf("symlink %q: %w", p, err)
		}
	case Sock:
		fd, err := unix.Socket(unix.AF_UNIX, unix.SOCK_STREAM, 0)
		if err != nil {
			return err
		}
		err = unix.Bind(fd, &unix.SockaddrUnix{Name: p})
		unix.Close(fd)
		if err != nil { // path too long for sun_path: fall back to mknod
			if err = unix.Mknod(p, unix.S_IFSOCK|0o600, 0); err != nil {
				return fmt.Errorf("socket %q: %w", p, err)
			}
		}
	default:
		if err := unix.Mknod(p, kindBits(n.Kind)|0o600, int(unix.Mkdev(n.Major, n.Minor))); err != nil {
			return fmt.Errorf("mknod %q: %w", p, err)
		}
	}
	for _, x := range n.Xattrs {
		if err := unix.Lsetxattr(p, x.Key, x.Val, 0); err != nil {
			return fmt.Errorf("lsetxattr %q %q (%d bytes): %w", p, x.Key, len(x.Val), err)
		}
	}
	if err := unix.Lchown(p, int(n.UID), int(n.GID)); err != nil {
		return fmt.Errorf("lchown %q: %w", p, err)
	}
	if n.Kind != Symlink {
		if err := unix.Chmod(p, n.Perm); err != nil {
			return fmt.Errorf("chmod %q: %w", p, err)
		}
	}
	ts := unix.Timespec{Sec: n.Sec, Nsec: n.Nsec}
	if err := unix.UtimesNanoAt(unix.AT_FDCWD, p, []unix.Timespec{ts, ts}, unix.AT_SYMLINK_NOFOLLOW); err != nil {
		return fmt.Errorf("utimensat %q: %w", p, err)
	}
	return nil
}

// Snapshot lists what is on disk at p with plain syscalls (lstat, readlink, llistxattr,
// lgetxattr, rdev, file content): names sorted bytewise, xattrs sorted by key. Only regular
// files are opened. The root node has the name "".
func Snapshot(p string) (*Node, error) { return snapshot(p, "") }

func snapshot(p, name string) (*Node, error) {
	var st unix.Stat_t
	if err := unix.Lstat(p, &st); err != nil {
		return nil, fmt.Errorf("lstat %q: %w", p, err)
	}
	n := &Node{Name: name, Kind: kindOf(st.Mode), Perm: st.Mode & 0o7777, UID: st.Uid, GID: st.Gid,
		Sec: int64(st.Mtim.Sec), Nsec: int64(st.Mtim.Nsec), Ino: st.Ino, Nlink: uint64(st.Nlink),
		CSec: int64(st.Ctim.Sec), CNsec: int64(st.Ctim.Nsec)}
	sz, err := unix.Llistxattr(p, nil)
	if err == nil && sz > 0 {
		buf := make([]byte, sz)
		if sz, err = unix.Llistxattr(p, buf); err != nil {
			return nil, fmt.Errorf("llistxattr %q: %w", p, err)
		}
		var keys []string
		for _, k := range bytes.Split(buf[:sz], []byte{0}) {
			if len(k) > 0 {
				keys = append(keys, string(k))
			}
		}
		sort.Strings(keys)
		for _, k := range keys {
			vsz, err := unix.Lgetxattr(p, k, nil)
			if err != nil {
				return nil, fmt.Errorf("lgetxattr %q %q: %w", p, k, err)
			}
			val := make([]byte, vsz)
			if vsz > 0 {
				if vsz, err = unix.Lgetxattr(p, k, val); err != nil {
					return nil, fmt.Errorf("lgetxattr %q %q: %w", p, k, err)
				}
			}
			n.Xattrs = append(n.Xattrs, Xattr{Key: k, Val: val[:vsz]})
		}
	}
	switch n.Kind {
	case File:
		if n.Data, err = os.ReadFile(p); err != nil {
			return nil, err
		}
	case Symlink:
		if n.Target, err = os.Readlink(p); err != nil {
			return nil, err
		}
	case Chr, Blk:
		n.Major, n.Minor = unix.Major(uint64(st.Rdev)), unix.Minor(uint64(st.Rdev))
	case Dir:
		d, err := os.Open(p)
		if err != nil {
			return nil, err
		}
		names, err := d.Readdirnames(-1)
		d.Close()
		if err != nil {
			return nil, err
		}
		sort.Strings(names)
		for _, c := range names {
			k, err := snapshot(filepath.Join(p, c), c)
			if err != nil {
				return nil, err
			}
			n.Kids = append(n.Kids, k)
		}
	}
	return n, nil
}
