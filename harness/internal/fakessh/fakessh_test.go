package fakessh

import (
	"bytes"
	"context"
	"fmt"
	"math/rand"
	"net/url"
	"os"
	"os/exec"
	"path/filepath"
	"reflect"
	"strings"
	"testing"
	"time"

	"github.com/folbricht/desync"
	"github.com/klauspost/compress/zstd"
)

func TestMain(m *testing.M) {
	MaybeServe()
	code := func() int {
		if !HavePull() {
			if dir, err := os.MkdirTemp("/var/tmp", "fakessh-bin-"); err == nil {
				defer os.RemoveAll(dir)
				if bin, err := buildDesync(dir); err == nil {
					SetPullBin(bin)
				} else {
					fmt.Fprintln(os.Stderr, "fakessh_test: no desync binary, RemoteSSH tests will be skipped:", err)
				}
			}
		}
		code := m.Run()
		if live := liveChildren(5 * time.Second); len(live) > 0 {
			fmt.Fprintln(os.Stderr, "fakessh_test: child processes still running after the tests:", live)
			if code == 0 {
				code = 1
			}
		}
		return code
	}()
	os.Exit(code)
}

func buildDesync(dir string) (string, error) {
	repo := os.Getenv("VERIF_REPO")
	if repo == "" {
		repo = "/repo"
	}
	bin := filepath.Join(dir, "desync")
	ctx, cancel := context.WithTimeout(context.Background(), 100*time.Second)
	defer cancel()
	cmd := exec.CommandContext(ctx, "go", "build", "-o", bin, "./cmd/desync")
	cmd.Dir = repo
	for _, e := range os.Environ() {
		if !strings.HasPrefix(e, "GOFLAGS=") && !strings.HasPrefix(e, "GOPROXY=") {
			cmd.Env = append(cmd.Env, e)
		}
	}
	cmd.Env = append(cmd.Env, "GOPROXY=off")
	if out, err := cmd.CombinedOutput(); err != nil {
		return "", fmt.Errorf("go build: %v\n%s", err, out)
	}
	return bin, nil
}

// liveChildren returns the direct children of this process that are still running (zombies
// do not count: desync never waits for its ssh processes), polling until none or timeout.
func liveChildren(timeout time.Duration) []string {
	deadline := time.Now().Add(timeout)
	for {
		var live []string
		tasks, _ := filepath.Glob(fmt.Sprintf("/proc/%d/task/*/children", os.Getpid()))
		for _, tf := range tasks {
			b, _ := os.ReadFile(tf)
			for _, pid := range strings.Fields(string(b)) {
				st, err := os.ReadFile("/proc/" + pid + "/stat")
				if err != nil {
					continue
				}
				// pid (comm) S ...
				s := string(st)
				if i := strings.LastIndexByte(s, ')'); i >= 0 && i+2 < len(s) && s[i+2] != 'Z' {
					cmdline, _ := os.ReadFile("/proc/" + pid + "/cmdline")
					live = append(live, pid+":"+strings.ReplaceAll(string(cmdline), "\x00", " "))
				}
			}
		}
		if len(live) == 0 || time.Now().After(deadline) {
			return live
		}
		time.Sleep(50 * time.Millisecond)
	}
}

func blob(seed int64, n int) []byte {
	b := make([]byte, n)
	rand.New(rand.NewSource(seed)).Read(b)
	return b
}

func unzstd(t *testing.T, b []byte) []byte {
	t.Helper()
	d, err := zstd.NewReader(nil)
	if err != nil {
		t.Fatal(err)
	}
	defer d.Close()
	out, err := d.DecodeAll(b, nil)
	if err != nil {
		t.Fatalf("not a zstd frame: %v", err)
	}
	return out
}

func isMissing(err error) bool {
	_, ok := err.(desync.ChunkMissing)
	return ok
}

func chunkFile(dir string, id desync.ChunkID, uncompressed bool) string {
	ext := desync.CompressedChunkExt
	if uncompressed {
		ext = desync.UncompressedChunkExt
	}
	return filepath.Join(dir, id.String()[:4], id.String()+ext)
}

func setup(t *testing.T, opts ...Option) string {
	t.Helper()
	wdir := t.TempDir()
	cleanup, err := Setup(wdir, opts...)
	if err != nil {
		t.Fatal(err)
	}
	t.Cleanup(cleanup)
	return wdir
}

// within fails the test instead of hanging it when f blocks.
func within(t *testing.T, d time.Duration, what string, f func()) {
	t.Helper()
	done := make(chan struct{})
	go func() { defer close(done); f() }()
	select {
	case <-done:
	case <-time.After(d):
		t.Fatalf("%s: still blocked after %v", what, d)
	}
}

func listFiles(t *testing.T, dir string) []string {
	t.Helper()
	var out []string
	filepath.Walk(dir, func(p string, info os.FileInfo, err error) error {
		if err == nil && !info.IsDir() {
			rel, _ := filepath.Rel(dir, p)
			out = append(out, rel)
		}
		return nil
	})
	return out
}

func TestSFTPStore(t *testing.T) {
	for _, uncompressed := range []bool{false, true} {
		t.Run(fmt.Sprintf("uncompressed=%v", uncompressed), func(t *testing.T) {
			wdir := setup(t)
			dir := t.TempDir()
			st, err := SFTPStore(dir, desync.StoreOptions{N: 2, Uncompressed: uncompressed})
			if err != nil {
				t.Fatal(err)
			}
			closed := false
			defer func() {
				if !closed {
					st.Close()
				}
			}()
			if got, want := Invocations(wdir), []string{Host + " -s sftp", Host + " -s sftp"}; !reflect.DeepEqual(got, want) {
				t.Fatalf("invocations %q, want %q", got, want)
			}

			var chunks []*desync.Chunk
			for i := 0; i < 5; i++ {
				chunks = append(chunks, desync.NewChunk(blob(int64(i+1), 3000+i)))
			}
			id := chunks[0].ID()
			if _, err := st.GetChunk(id); !isMissing(err) {
				t.Fatalf("GetChunk on empty store: want ChunkMissing, got %v", err)
			}
			if ok, err := st.HasChunk(id); ok || err != nil {
				t.Fatalf("HasChunk on empty store: %v %v", ok, err)
			}
			for _, c := range chunks[:4] {
				if err := st.StoreChunk(c); err != nil {
					t.Fatal(err)
				}
			}
			// what is on disk
			raw, err := os.ReadFile(chunkFile(dir, id, uncompressed))
			if err != nil {
				t.Fatal(err)
			}
			data, _ := chunks[0].Data()
			if uncompressed && !bytes.Equal(raw, data) || !uncompressed && !bytes.Equal(unzstd(t, raw), data) {
				t.Fatal("file content does not correspond to the chunk")
			}
			if n := len(listFiles(t, dir)); n != 4 {
				t.Fatalf("%d files after 4 stores: %v", n, listFiles(t, dir))
			}
			// read back, and read a chunk planted behind the store's back
			for _, c := range chunks[:4] {
				got, err := st.GetChunk(c.ID())
				if err != nil {
					t.Fatal(err)
				}
				want, _ := c.Data()
				if b, err := got.Data(); err != nil || !bytes.Equal(b, want) {
					t.Fatalf("GetChunk: other data (err %v)", err)
				}
				if ok, err := st.HasChunk(c.ID()); !ok || err != nil {
					t.Fatalf("HasChunk: %v %v", ok, err)
				}
			}
			if uncompressed {
				d4, _ := chunks[4].Data()
				p := chunkFile(dir, chunks[4].ID(), true)
				os.MkdirAll(filepath.Dir(p), 0o755)
				if err := os.WriteFile(p, d4, 0o644); err != nil {
					t.Fatal(err)
				}
				if got, err := st.GetChunk(chunks[4].ID()); err != nil {
					t.Fatalf("planted chunk: %v", err)
				} else if b, _ := got.Data(); !bytes.Equal(b, d4) {
					t.Fatal("planted chunk: other data")
				}
				// poisoned
				d4[0] ^= 1
				os.WriteFile(p, d4, 0o644)
				if _, err := st.GetChunk(chunks[4].ID()); err == nil {
					t.Fatal("poisoned chunk accepted")
				}
				os.Remove(p)
			}

			if err := st.RemoveChunk(chunks[3].ID()); err != nil {
				t.Fatal(err)
			}
			if _, err := os.Stat(chunkFile(dir, chunks[3].ID(), uncompressed)); !os.IsNotExist(err) {
				t.Fatalf("file still there after RemoveChunk: %v", err)
			}
			if err := st.RemoveChunk(chunks[3].ID()); !isMissing(err) {
				t.Fatalf("second RemoveChunk: want ChunkMissing, got %v", err)
			}

			// Prune keeps chunk 1, drops 0 and 2. (In uncompressed mode desync's SFTP prune
			// is known to delete nothing; only its termination is checked there.)
			keep := map[desync.ChunkID]struct{}{chunks[1].ID(): {}}
			within(t, 30*time.Second, "Prune", func() {
				if err := st.Prune(context.Background(), keep); err != nil {
					t.Error(err)
				}
			})
			if !uncompressed {
				rel, _ := filepath.Rel(dir, chunkFile(dir, chunks[1].ID(), false))
				if got := listFiles(t, dir); !reflect.DeepEqual(got, []string{rel}) {
					t.Fatalf("after prune: %v, want [%s]", got, rel)
				}
			} else {
				t.Logf("uncompressed prune left %d of 3 files", len(listFiles(t, dir)))
			}
			if _, err := st.GetChunk(chunks[1].ID()); err != nil {
				t.Fatal(err)
			}
			within(t, 10*time.Second, "Close", func() { st.Close() })
			closed = true
			if live := liveChildren(5 * time.Second); len(live) != 0 {
				t.Fatalf("sessions still running after Close: %v", live)
			}
		})
	}
}

func testIndex(n int) desync.Index {
	idx := desync.Index{Index: desync.FormatIndex{
		FormatHeader: desync.FormatHeader{Size: 48, Type: desync.CaFormatIndex},
		FeatureFlags: desync.CaFormatExcludeNoDump | desync.CaFormatSHA512256,
		ChunkSizeMin: 64, ChunkSizeAvg: 256, ChunkSizeMax: 1024,
	}}
	var pos uint64
	for i := 0; i < n; i++ {
		sz := uint64(65 + i%900)
		idx.Chunks = append(idx.Chunks, desync.IndexChunk{ID: desync.NewChunk(blob(int64(i), 8)).ID(), Start: pos, Size: sz})
		pos += sz
	}
	return idx
}

func TestSFTPIndexStore(t *testing.T) {
	wdir := setup(t)
	dir := t.TempDir()
	// with a user name in the URL, as desync passes it on to ssh
	u := URL("sftp", dir)
	u.User = url.User("alice")
	st, err := desync.NewSFTPIndexStore(u, desync.StoreOptions{})
	if err != nil {
		t.Fatal(err)
	}
	defer st.Close()
	if got := Invocations(wdir); !reflect.DeepEqual(got, []string{"alice@" + Host + " -s sftp"}) {
		t.Fatalf("invocations %q", got)
	}
	idx := testIndex(3000) // ~120 KiB: several sftp write packets
	if err := st.StoreIndex("x.caibx", idx); err != nil {
		t.Fatal(err)
	}
	var want bytes.Buffer
	idx.WriteTo(&want)
	raw, err := os.ReadFile(filepath.Join(dir, "x.caibx"))
	if err != nil || !bytes.Equal(raw, want.Bytes()) {
		t.Fatalf("index file wrong: %v (%d vs %d bytes)", err, len(raw), want.Len())
	}
	if got := listFiles(t, dir); !reflect.DeepEqual(got, []string{"x.caibx"}) {
		t.Fatalf("files: %v", got)
	}
	got, err := st.GetIndex("x.caibx")
	if err != nil {
		t.Fatal(err)
	}
	if !reflect.DeepEqual(got.Chunks, idx.Chunks) {
		t.Fatal("GetIndex returned a different index")
	}
	if _, err := st.GetIndex("nope.caibx"); err == nil {
		t.Fatal("GetIndex of a missing file succeeded")
	}

	// helper constructor
	st2, err := SFTPIndexStore(dir, desync.StoreOptions{})
	if err != nil {
		t.Fatal(err)
	}
	defer st2.Close()
	if got, err := st2.GetIndex("x.caibx"); err != nil || len(got.Chunks) != 3000 {
		t.Fatalf("second store: %v", err)
	}
}

func TestSFTPMissingDir(t *testing.T) {
	setup(t)
	within(t, 20*time.Second, "NewSFTPStore", func() {
		if st, err := SFTPStore(filepath.Join(t.TempDir(), "absent"), desync.StoreOptions{N: 2}); err == nil {
			st.Close()
			t.Error("store on a missing directory opened")
		}
	})
}

func TestReadOnly(t *testing.T) {
	setup(t, ReadOnly())
	dir := t.TempDir()
	st, err := SFTPStore(dir, desync.StoreOptions{Uncompressed: true}) // N defaults to 2
	if err != nil {
		t.Fatal(err)
	}
	defer st.Close()
	c := desync.NewChunk(blob(1, 100))
	if err := st.StoreChunk(c); err == nil {
		t.Fatal("StoreChunk on a read-only server succeeded")
	}
	if n := len(listFiles(t, dir)); n != 0 {
		t.Fatalf("read-only server wrote %d files", n)
	}
	d, _ := c.Data()
	p := chunkFile(dir, c.ID(), true)
	os.MkdirAll(filepath.Dir(p), 0o755)
	os.WriteFile(p, d, 0o644)
	if _, err := st.GetChunk(c.ID()); err != nil {
		t.Fatal(err)
	}
}

func TestCutAfterSFTP(t *testing.T) {
	dir := t.TempDir()
	c := desync.NewChunk(blob(1, 200000))
	d, _ := c.Data()
	p := chunkFile(dir, c.ID(), true)
	os.MkdirAll(filepath.Dir(p), 0o755)
	os.WriteFile(p, d, 0o644)

	t.Run("handshake", func(t *testing.T) {
		setup(t, CutAfter(0))
		within(t, 20*time.Second, "NewSFTPStore", func() {
			if st, err := SFTPStore(dir, desync.StoreOptions{N: 2, Uncompressed: true}); err == nil {
				st.Close()
				t.Error("store opened although the session died before the handshake")
			}
		})
	})
	t.Run("transfer", func(t *testing.T) {
		setup(t, CutAfter(50000))
		within(t, 20*time.Second, "session", func() {
			st, err := SFTPStore(dir, desync.StoreOptions{N: 2, Uncompressed: true})
			if err != nil {
				t.Error(err)
				return
			}
			defer st.Close()
			for i := 0; i < 2; i++ { // both pooled sessions die the same way
				if _, err := st.GetChunk(c.ID()); err == nil || isMissing(err) {
					t.Errorf("GetChunk over a dying session: want a plain error, got %v", err)
				}
			}
		})
	})
	if live := liveChildren(5 * time.Second); len(live) != 0 {
		t.Fatalf("sessions still running: %v", live)
	}
}

func TestPullPath(t *testing.T) {
	for in, want := range map[string]string{
		"casync pull - - - '/a/b'":           "/a/b",
		"/opt/my casync pull - - - '/a b/c'": "/a b/c",
		"casync pull - - - ''":               "",
		"casync pull - - - '/it's'":          "/it's",
	} {
		if got, ok := pullPath(in); !ok || got != want {
			t.Errorf("pullPath(%q) = %q %v, want %q", in, got, ok, want)
		}
	}
	for _, in := range []string{"casync push - - - '/a'", "casync pull - - - '/a", "casync pull - - - '", "ls"} {
		if _, ok := pullPath(in); ok {
			t.Errorf("pullPath(%q) accepted", in)
		}
	}
}

func TestWrapperRejectsUnknownCommandLine(t *testing.T) {
	wdir := setup(t)
	cmd := exec.Command(os.Getenv("CASYNC_SSH_PATH"), Host, "ls")
	out, err := cmd.CombinedOutput()
	ee, ok := err.(*exec.ExitError)
	if !ok || ee.ExitCode() != 255 || !strings.Contains(string(out), "cannot tell what to serve") {
		t.Fatalf("wrapper with unknown command: err %v, output %q", err, out)
	}
	if got := Invocations(wdir); !reflect.DeepEqual(got, []string{Host + " ls"}) {
		t.Fatalf("invocations %q", got)
	}
}

func TestSetupRestores(t *testing.T) {
	t.Setenv("CASYNC_SSH_PATH", "/previous/ssh")
	wdir := t.TempDir()
	cleanup, err := Setup(wdir)
	if err != nil {
		t.Fatal(err)
	}
	script := os.Getenv("CASYNC_SSH_PATH")
	if script != filepath.Join(wdir, wrapperName) {
		t.Fatalf("CASYNC_SSH_PATH=%q", script)
	}
	if st, err := os.Stat(script); err != nil || st.Mode()&0o111 == 0 {
		t.Fatalf("wrapper not executable: %v", err)
	}
	cleanup()
	if got := os.Getenv("CASYNC_SSH_PATH"); got != "/previous/ssh" {
		t.Fatalf("CASYNC_SSH_PATH after cleanup: %q", got)
	}
	if _, err := os.Stat(script); !os.IsNotExist(err) {
		t.Fatal("wrapper not removed")
	}
	if _, err := Setup(wdir, Mode("bogus")); err == nil {
		t.Fatal("bogus mode accepted")
	}
	if os.Getenv(envMode) != "" {
		t.Fatal("mode variable leaked into the parent environment")
	}
}

func populateLocal(t *testing.T, dir string, chunks []*desync.Chunk) {
	t.Helper()
	ls, err := desync.NewLocalStore(dir, desync.StoreOptions{})
	if err != nil {
		t.Fatal(err)
	}
	for _, c := range chunks {
		if err := ls.StoreChunk(c); err != nil {
			t.Fatal(err)
		}
	}
}

func TestRemoteSSH(t *testing.T) {
	if !HavePull() {
		t.Skip("no desync binary ($VERIF_DESYNC_BIN unset and build failed)")
	}
	wdir := setup(t)
	dir := filepath.Join(t.TempDir(), "store with blank")
	os.Mkdir(dir, 0o755)
	chunks := []*desync.Chunk{desync.NewChunk(blob(1, 5000)), desync.NewChunk(blob(2, 70000)), desync.NewChunk(blob(3, 10))}
	populateLocal(t, dir, chunks[:2])

	var st *desync.RemoteSSH
	within(t, 30*time.Second, "NewRemoteSSHStore", func() {
		var err error
		if st, err = RemoteSSHStore(dir, desync.StoreOptions{N: 2}); err != nil {
			t.Error(err)
		}
	})
	if t.Failed() {
		t.FailNow()
	}
	want := Host + " casync pull - - - '" + dir + "'"
	if got := Invocations(wdir); !reflect.DeepEqual(got, []string{want, want}) {
		t.Fatalf("invocations %q, want 2x %q", got, want)
	}
	within(t, 30*time.Second, "RemoteSSH calls", func() {
		for round := 0; round < 3; round++ { // more calls than sessions
			for _, c := range chunks[:2] {
				got, err := st.GetChunk(c.ID())
				if err != nil {
					t.Error(err)
					return
				}
				w, _ := c.Data()
				if b, err := got.Data(); err != nil || !bytes.Equal(b, w) {
					t.Errorf("GetChunk: other data (err %v)", err)
				}
			}
			if ok, err := st.HasChunk(chunks[0].ID()); !ok || err != nil {
				t.Errorf("HasChunk(present): %v %v", ok, err)
			}
		}
		// One request for a missing chunk per session, as the last request: desync's
		// ProtocolServer ends its loop after it has answered MISSING (the wrapped nil error
		// in the request case), so whatever is asked next on that session fails with
		// EOF / broken pipe. That is desync's behaviour, not the fake's; it is only logged.
		if _, err := st.GetChunk(chunks[2].ID()); !isMissing(err) {
			t.Errorf("missing chunk: want ChunkMissing, got %v", err)
		}
		if ok, err := st.HasChunk(chunks[2].ID()); ok || !isMissing(err) {
			t.Errorf("HasChunk(missing): %v %v", ok, err)
		}
		_, err := st.GetChunk(chunks[0].ID())
		t.Logf("request after a MISSING answer on the same session: err = %v", err)
		t.Logf("Close after that: %v", st.Close())
	})
	if live := liveChildren(5 * time.Second); len(live) != 0 {
		t.Fatalf("pull servers still running after Close: %v", live)
	}
}

func TestRemoteSSHForcedModeAndUser(t *testing.T) {
	if !HavePull() {
		t.Skip("no desync binary")
	}
	wdir := setup(t, Mode(Pull))
	t.Setenv("CASYNC_REMOTE_PATH", "/usr/local/bin/other-casync")
	dir := t.TempDir()
	c := desync.NewChunk(blob(5, 999))
	populateLocal(t, dir, []*desync.Chunk{c})
	u := URL("ssh", dir)
	u.User = url.User("bob")
	within(t, 30*time.Second, "RemoteSSH", func() {
		st, err := desync.NewRemoteSSHStore(u, desync.StoreOptions{N: 1})
		if err != nil {
			t.Error(err)
			return
		}
		defer st.Close()
		if _, err := st.GetChunk(c.ID()); err != nil {
			t.Error(err)
		}
	})
	want := "bob@" + Host + " /usr/local/bin/other-casync pull - - - '" + dir + "'"
	if got := Invocations(wdir); !reflect.DeepEqual(got, []string{want}) {
		t.Fatalf("invocations %q, want %q", got, want)
	}
}

func TestCutAfterPull(t *testing.T) {
	if !HavePull() {
		t.Skip("no desync binary")
	}
	dir := t.TempDir()
	c := desync.NewChunk(blob(6, 100000))
	populateLocal(t, dir, []*desync.Chunk{c})

	t.Run("handshake", func(t *testing.T) {
		setup(t, CutAfter(0))
		within(t, 30*time.Second, "NewRemoteSSHStore", func() {
			if _, err := RemoteSSHStore(dir, desync.StoreOptions{N: 1}); err == nil {
				t.Error("store opened although the server died before HELLO")
			}
		})
	})
	t.Run("transfer", func(t *testing.T) {
		setup(t, CutAfter(1000))
		within(t, 30*time.Second, "session", func() {
			st, err := RemoteSSHStore(dir, desync.StoreOptions{N: 1})
			if err != nil {
				t.Error(err)
				return
			}
			if _, err := st.GetChunk(c.ID()); err == nil || isMissing(err) {
				t.Errorf("GetChunk over a dying session: want a plain error, got %v", err)
			}
		})
	})
	if live := liveChildren(5 * time.Second); len(live) != 0 {
		t.Fatalf("processes still running: %v", live)
	}
}

func TestNoPullBinary(t *testing.T) {
	t.Setenv(envBin, "")
	if HavePull() {
		t.Fatal("HavePull with empty variable")
	}
	if _, err := RemoteSSHStore(t.TempDir(), desync.StoreOptions{}); err == nil {
		t.Fatal("RemoteSSHStore without binary")
	}
	t.Setenv(envBin, filepath.Join(t.TempDir(), "absent"))
	if HavePull() {
		t.Fatal("HavePull with a dangling path")
	}
}
