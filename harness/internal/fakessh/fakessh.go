// Package fakessh lets a test drive desync.NewSFTPStore, desync.NewSFTPIndexStore and
// desync.NewRemoteSSHStore without a real ssh.
//
// desync starts the program named by $CASYNC_SSH_PATH (default "ssh") as
//
//	<ssh> [user@]host -s sftp                              (SFTP chunk and index stores, one per session)
//	<ssh> [user@]host "<$CASYNC_REMOTE_PATH> pull - - - '<path>'"   (RemoteSSH, one per session)
//
// and talks to it over stdin/stdout. Setup writes a small shell wrapper into a directory and
// points CASYNC_SSH_PATH at it. The wrapper re-executes the *current test binary* with
// VERIF_FAKESSH_MODE set; the package's init function (also exported as MaybeServe) sees the
// variable in the child, serves the session and exits before the testing package ever runs:
//
//   - sftp: github.com/pkg/sftp's server over stdio, rooted at the real file system - the store
//     URL path is simply a scratch directory of the test;
//   - pull: replaced (exec) by `$VERIF_DESYNC_BIN pull - - - <path>`, desync's casync protocol
//     server. HavePull reports whether that binary is available.
//
// The children end when their stdin reaches EOF, i.e. when the store is closed or, at the
// latest, when the test process exits. desync never waits for its ssh children, so finished
// sessions stay around as zombies of the test process until it exits; reuse stores across
// cases where possible.
package fakessh

import (
	"fmt"
	"io"
	"net/url"
	"os"
	"os/exec"
	"path/filepath"
	"strconv"
	"strings"
	"syscall"

	"github.com/folbricht/desync"
	"github.com/pkg/sftp"
)

const (
	envMode = "VERIF_FAKESSH_MODE" // set by the wrapper only: auto | sftp | pull
	envRO   = "VERIF_FAKESSH_RO"   // wrapper: sftp server in read-only mode
	envCut  = "VERIF_FAKESSH_CUT"  // wrapper: die after this many bytes written to stdout
	envBin  = "VERIF_DESYNC_BIN"   // path of a built cmd/desync (exported by the driver with VERIF_NEED_BIN=1)
	envSSH  = "CASYNC_SSH_PATH"

	// Host is the host name the helper constructors put into store URLs.
	Host = "fakehost"

	wrapperName = "fakessh.sh"
	logName     = "fakessh.log"
)

// Session kinds for Mode.
const (
	Auto = "auto" // decide from the command line desync built (default)
	SFTP = "sftp" // always serve sftp
	Pull = "pull" // always exec `desync pull`
)

func init() { MaybeServe() }

// MaybeServe serves one fake ssh session and exits if the process was started through the
// wrapper script; otherwise it returns at once. It already runs from this package's init, so
// importing fakessh is enough; calling it first thing in TestMain documents the mechanism
// and is harmless.
func MaybeServe() {
	mode := os.Getenv(envMode)
	if mode == "" {
		return
	}
	os.Unsetenv(envMode) // nothing started from here may become a fake ssh by accident
	os.Exit(serve(mode, os.Args[1:]))
}

// Option configures the wrapper written by Setup.
type Option func(*config)

type config struct {
	mode string
	ro   bool
	cut  int64
}

// Mode forces the session kind (Auto, SFTP, Pull) instead of deriving it from the arguments.
func Mode(m string) Option { return func(c *config) { c.mode = m } }

// ReadOnly makes the sftp server refuse every modifying request (SSH_FX_PERMISSION_DENIED).
func ReadOnly() Option { return func(c *config) { c.ro = true } }

// CutAfter makes every session die abruptly (exit 1, pipes closed) once it has written n
// bytes to its stdout; the n bytes are still delivered. n = 0 kills the session before its
// handshake answer (the constructor fails); a few hundred bytes let the handshake and the
// initial stat through and break the first bulk transfer.
func CutAfter(n int64) Option { return func(c *config) { c.cut = n } }

// Setup writes the wrapper script into dir (which must exist), sets CASYNC_SSH_PATH to it and
// returns a function that restores the previous value and removes the script and its log.
// Every session started through the wrapper appends its argument list to a log in dir, see
// Invocations.
func Setup(dir string, opts ...Option) (cleanup func(), err error) {
	c := config{mode: Auto, cut: -1}
	for _, o := range opts {
		o(&c)
	}
	switch c.mode {
	case Auto, SFTP, Pull:
	default:
		return nil, fmt.Errorf("fakessh: unknown mode %q", c.mode)
	}
	exe, err := os.Executable()
	if err != nil {
		return nil, fmt.Errorf("fakessh: %w", err)
	}
	dir, err = filepath.Abs(dir)
	if err != nil {
		return nil, fmt.Errorf("fakessh: %w", err)
	}
	script := filepath.Join(dir, wrapperName)
	log := filepath.Join(dir, logName)

	var b strings.Builder
	b.WriteString("#!/bin/sh\n")
	fmt.Fprintf(&b, "printf '%%s\\n' \"$*\" >> %s\n", shQuote(log))
	fmt.Fprintf(&b, "%s=%s", envMode, c.mode)
	if c.ro {
		fmt.Fprintf(&b, " %s=1", envRO)
	}
	if c.cut >= 0 {
		fmt.Fprintf(&b, " %s=%d", envCut, c.cut)
	}
	fmt.Fprintf(&b, " exec %s \"$@\"\n", shQuote(exe))

	// Hold the fork lock while the script is open for writing: a child forked by another
	// goroutine in that window would keep the descriptor until its exec and make the
	// kernel refuse to run the script (ETXTBSY).
	syscall.ForkLock.RLock()
	err = os.WriteFile(script, []byte(b.String()), 0o755)
	syscall.ForkLock.RUnlock()
	if err != nil {
		return nil, fmt.Errorf("fakessh: %w", err)
	}

	old, had := os.LookupEnv(envSSH)
	os.Setenv(envSSH, script)
	return func() {
		if had {
			os.Setenv(envSSH, old)
		} else {
			os.Unsetenv(envSSH)
		}
		os.Remove(script)
		os.Remove(log)
	}, nil
}

// Invocations returns the argument lists (joined by blanks) of the sessions started so far
// through the wrapper in dir, e.g. "fakehost -s sftp" or "u@fakehost casync pull - - - '/p'".
func Invocations(dir string) []string {
	b, err := os.ReadFile(filepath.Join(dir, logName))
	if err != nil {
		return nil
	}
	s := strings.TrimSuffix(string(b), "\n")
	if s == "" {
		return nil
	}
	return strings.Split(s, "\n")
}

func shQuote(s string) string { return "'" + strings.ReplaceAll(s, "'", `'\''`) + "'" }

// HavePull reports whether $VERIF_DESYNC_BIN names an executable file, i.e. whether RemoteSSH
// stores can be served.
func HavePull() bool {
	p := os.Getenv(envBin)
	if p == "" {
		return false
	}
	st, err := os.Stat(p)
	return err == nil && st.Mode().IsRegular() && st.Mode()&0o111 != 0
}

// SetPullBin sets $VERIF_DESYNC_BIN for this process and the sessions started from it.
func SetPullBin(path string) { os.Setenv(envBin, path) }

// URL builds scheme://fakehost/<abs dir> ("sftp" or "ssh").
func URL(scheme, dir string) *url.URL {
	if abs, err := filepath.Abs(dir); err == nil {
		dir = abs
	}
	return &url.URL{Scheme: scheme, Host: Host, Path: dir}
}

// SFTPStore opens desync's SFTP chunk store on a local directory (which must exist) through
// the fake ssh. opt.N is the number of sessions (child processes); the zero value, with
// which every call would block forever, is replaced by 2. Do not use N = 1 with Prune:
// SFTPStore.Prune holds its only session while RemoveChunk waits for one.
func SFTPStore(dir string, opt desync.StoreOptions) (*desync.SFTPStore, error) {
	if opt.N == 0 {
		opt.N = 2
	}
	return desync.NewSFTPStore(URL("sftp", dir), opt)
}

// SFTPIndexStore opens desync's SFTP index store (one session) on a local directory.
func SFTPIndexStore(dir string, opt desync.StoreOptions) (*desync.SFTPIndexStore, error) {
	return desync.NewSFTPIndexStore(URL("sftp", dir), opt)
}

// RemoteSSHStore opens desync's casync-protocol store on a local (compressed) chunk store
// directory, served by `$VERIF_DESYNC_BIN pull`. opt.N = 0 is replaced by 1.
func RemoteSSHStore(dir string, opt desync.StoreOptions) (*desync.RemoteSSH, error) {
	if !HavePull() {
		return nil, fmt.Errorf("fakessh: $%s is not set to a desync binary", envBin)
	}
	if opt.N == 0 {
		opt.N = 1
	}
	return desync.NewRemoteSSHStore(URL("ssh", dir), opt)
}

// ---------------------------------------------------------------------------------------------
// child side

const pullMarker = " pull - - - '"

// pullPath extracts <path> from "<remote cmd> pull - - - '<path>'".
func pullPath(cmd string) (string, bool) {
	i := strings.Index(cmd, pullMarker)
	if i < 0 || !strings.HasSuffix(cmd, "'") || len(cmd) < i+len(pullMarker)+1 {
		return "", false
	}
	return cmd[i+len(pullMarker) : len(cmd)-1], true
}

func serve(mode string, args []string) int {
	cut := int64(-1)
	if v := os.Getenv(envCut); v != "" {
		if n, err := strconv.ParseInt(v, 10, 64); err == nil {
			cut = n
		}
	}
	ro := os.Getenv(envRO) != ""
	os.Unsetenv(envCut)
	os.Unsetenv(envRO)

	if mode == Auto {
		switch {
		case len(args) == 3 && args[1] == "-s" && args[2] == "sftp":
			mode = SFTP
		case len(args) == 2 && strings.Contains(args[1], pullMarker):
			mode = Pull
		default:
			fmt.Fprintf(os.Stderr, "fakessh: cannot tell what to serve for arguments %q\n", args)
			return 255
		}
	}
	switch mode {
	case SFTP:
		return serveSFTP(ro, cut)
	case Pull:
		if len(args) == 0 {
			fmt.Fprintln(os.Stderr, "fakessh: pull: no remote command")
			return 255
		}
		p, ok := pullPath(args[len(args)-1])
		if !ok {
			fmt.Fprintf(os.Stderr, "fakessh: pull: cannot parse remote command %q\n", args[len(args)-1])
			return 255
		}
		return servePull(p, cut)
	}
	fmt.Fprintf(os.Stderr, "fakessh: unknown mode %q\n", mode)
	return 255
}

type stdio struct {
	io.Reader
	io.Writer
}

func (stdio) Close() error { os.Stdin.Close(); return os.Stdout.Close() }

// cutWriter lets n bytes through and then kills the process.
type cutWriter struct {
	w    io.Writer
	left int64
	die  func()
}

func (c *cutWriter) Write(p []byte) (int, error) {
	if int64(len(p)) < c.left {
		c.left -= int64(len(p))
		return c.w.Write(p)
	}
	c.w.Write(p[:c.left])
	c.die()
	return 0, io.ErrClosedPipe
}

func serveSFTP(ro bool, cut int64) int {
	var out io.Writer = os.Stdout
	if cut >= 0 {
		out = &cutWriter{w: os.Stdout, left: cut, die: func() { os.Exit(1) }}
	}
	var opts []sftp.ServerOption
	if ro {
		opts = append(opts, sftp.ReadOnly())
	}
	srv, err := sftp.NewServer(stdio{os.Stdin, out}, opts...)
	if err != nil {
		fmt.Fprintln(os.Stderr, "fakessh: sftp:", err)
		return 255
	}
	if err := srv.Serve(); err != nil && err != io.EOF {
		fmt.Fprintln(os.Stderr, "fakessh: sftp:", err)
		return 1
	}
	return 0
}

func servePull(path string, cut int64) int {
	bin := os.Getenv(envBin)
	if bin == "" {
		fmt.Fprintf(os.Stderr, "fakessh: pull: $%s is not set\n", envBin)
		return 127
	}
	argv := []string{bin, "pull", "-", "-", "-", path}
	if cut < 0 {
		err := syscall.Exec(bin, argv, os.Environ())
		fmt.Fprintf(os.Stderr, "fakessh: pull: exec %s: %v\n", bin, err)
		return 126
	}
	// Cut variant: keep a process in between that forwards n bytes and then kills the server.
	cmd := exec.Command(bin, argv[1:]...)
	cmd.Stdin = os.Stdin
	cmd.Stderr = os.Stderr
	cmd.SysProcAttr = &syscall.SysProcAttr{Pdeathsig: syscall.SIGKILL}
	rd, err := cmd.StdoutPipe()
	if err != nil {
		fmt.Fprintln(os.Stderr, "fakessh: pull:", err)
		return 126
	}
	if err := cmd.Start(); err != nil {
		fmt.Fprintln(os.Stderr, "fakessh: pull:", err)
		return 126
	}
	w := &cutWriter{w: os.Stdout, left: cut, die: func() {
		cmd.Process.Kill()
		cmd.Wait()
		os.Exit(1)
	}}
	io.Copy(w, rd)
	if err := cmd.Wait(); err != nil {
		return 1
	}
	return 0
}
