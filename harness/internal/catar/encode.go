package catar

import (
	"bytes"
	"fmt"
	"sort"
)

// Xattr is one extended attribute.
type Xattr struct {
	Key string
	Val []byte
}

// Node is one filesystem object of the tree model. The kind is given by Mode&S_IFMT.
type Node struct {
	Name     string // verbatim FILENAME content; "" for the root
	Mode     uint32 // S_IFMT | permission bits, as in stat(2)
	UID, GID uint64
	MTimeNs  uint64
	Flags    uint64  // feature flags of the ENTRY element
	Xattrs   []Xattr // in archive order (sorted by key in a well-formed archive)
	Data     []byte  // S_IFREG
	Target   string  // S_IFLNK
	Major    uint64  // S_IFCHR / S_IFBLK
	Minor    uint64
	Children []*Node // S_IFDIR, in archive order

	// Elements other than XATTR that casync may put between ENTRY and the payload; filled by
	// Validate, written back by Encode (so that casync-made archives round-trip).
	User, Group, SELinux string
	Extra                []Element // ACL*, FCAPS, QUOTA_PROJID in archive order
}

// Element is an uninterpreted element (type and body without the 16-byte header).
type Element struct {
	Type uint64
	Body []byte
}

// Kind returns Mode & S_IFMT.
func (n *Node) Kind() uint32 { return n.Mode & S_IFMT }

// IsDir reports whether the node is a directory.
func (n *Node) IsDir() bool { return n.Kind() == S_IFDIR }

// EncodeOptions steer Encode. The zero value writes a well-formed archive with the children
// in the order given.
type EncodeOptions struct {
	DefaultFlags        uint64 // feature flags for nodes whose Flags is 0 (0 = DefaultFlags constant)
	SortChildren        bool   // write children in ascending byte order of their names
	SortXattrs          bool   // write xattrs in ascending key order
	NoGoodbye           bool   // omit every GOODBYE element
	NoRootGoodbye       bool   // omit only the root's GOODBYE element
	GoodbyeUnsorted     bool   // goodbye items in child order instead of BST order
	XattrNoTerminator   bool   // XATTR elements without the byte after the value
	FilenameSizeDelta   int64  // added to the size field of every FILENAME element (body unchanged)
	PayloadSizeDelta    int64  // added to the size field of every PAYLOAD element (body unchanged)
	GoodbyeOffsetDelta  int64  // added to every non-tail goodbye item offset
	GoodbyeTailNoMarker bool   // tail item hash 0 instead of the marker
}

// Encode serialises the tree. With the zero options the result is accepted by Validate; the
// options and the names/modes in the tree (written verbatim) produce hostile archives.
func Encode(root *Node, o EncodeOptions) []byte {
	if o.DefaultFlags == 0 {
		o.DefaultFlags = DefaultFlags
	}
	return appendNode(nil, root, &o, true)
}

func appendNode(b []byte, n *Node, o *EncodeOptions, isRoot bool) []byte {
	entryStart := len(b)
	flags := n.Flags
	if flags == 0 {
		flags = o.DefaultFlags
	}
	b = AppendEntry(b, Entry{FeatureFlags: flags, Mode: uint64(n.Mode), UID: n.UID, GID: n.GID, MTimeNs: n.MTimeNs})
	if n.User != "" {
		b = AppendUser(b, n.User)
	}
	if n.Group != "" {
		b = AppendGroup(b, n.Group)
	}
	xs := n.Xattrs
	if o.SortXattrs {
		xs = append([]Xattr(nil), xs...)
		sort.SliceStable(xs, func(i, j int) bool { return xs[i].Key < xs[j].Key })
	}
	for _, x := range xs {
		if o.XattrNoTerminator {
			b = AppendXattrNoTerminator(b, x.Key, x.Val)
		} else {
			b = AppendXattr(b, x.Key, x.Val)
		}
	}
	// ACL* and FCAPS precede SELINUX, QUOTA_PROJID follows it
	for _, e := range n.Extra {
		if e.Type != TypeQuotaProjID {
			b = AppendElement(b, e.Type, e.Body)
		}
	}
	if n.SELinux != "" {
		b = AppendSELinux(b, n.SELinux)
	}
	for _, e := range n.Extra {
		if e.Type == TypeQuotaProjID {
			b = AppendElement(b, e.Type, e.Body)
		}
	}

	switch n.Kind() {
	case S_IFREG:
		at := len(b)
		b = AppendPayload(b, n.Data)
		if o.PayloadSizeDelta != 0 {
			PatchSize(b, at, uint64(int64(16+len(n.Data))+o.PayloadSizeDelta))
		}
	case S_IFLNK:
		b = AppendSymlink(b, n.Target)
	case S_IFCHR, S_IFBLK:
		b = AppendDevice(b, n.Major, n.Minor)
	case S_IFDIR:
		kids := n.Children
		if o.SortChildren {
			kids = append([]*Node(nil), kids...)
			sort.SliceStable(kids, func(i, j int) bool { return kids[i].Name < kids[j].Name })
		}
		type span struct{ start, end int }
		spans := make([]span, 0, len(kids))
		for _, c := range kids {
			s := len(b)
			b = AppendFilename(b, c.Name)
			if o.FilenameSizeDelta != 0 {
				PatchSize(b, s, uint64(int64(16+len(c.Name)+1)+o.FilenameSizeDelta))
			}
			b = appendNode(b, c, o, false)
			spans = append(spans, span{s, len(b)})
		}
		if o.NoGoodbye || (o.NoRootGoodbye && isRoot) {
			break
		}
		g := len(b)
		items := make([]GoodbyeItem, len(kids))
		for i, c := range kids {
			items[i] = GoodbyeItem{
				Offset: uint64(int64(g-spans[i].start) + o.GoodbyeOffsetDelta),
				Size:   uint64(spans[i].end - spans[i].start),
				Hash:   NameHash(c.Name),
			}
		}
		if !o.GoodbyeUnsorted && !o.GoodbyeTailNoMarker {
			b = AppendGoodbye(b, items, entryStart)
			break
		}
		tab := items
		if !o.GoodbyeUnsorted {
			tab = HeapFill(SortItems(items))
		}
		tail := GoodbyeItem{Offset: uint64(g - entryStart), Size: 16 + 24*uint64(len(items)+1), Hash: GoodbyeTailMarker}
		if o.GoodbyeTailNoMarker {
			tail.Hash = 0
		}
		b = AppendGoodbyeRaw(b, append(append([]GoodbyeItem(nil), tab...), tail))
	default:
		// S_IFIFO, S_IFSOCK and anything unknown: ENTRY only
	}
	return b
}

// Difference is one field in which two trees differ.
type Difference struct {
	Path  string // slash-joined names from the root ("" = root)
	Field string // name mode uid gid mtime flags xattrs data target device children
	Msg   string
}

func (d Difference) String() string { return fmt.Sprintf("%q: %s: %s", d.Path, d.Field, d.Msg) }

// Diff compares two trees node by node in child order (nil and empty slices are equal;
// User/Group/SELinux/Extra are not compared) and returns at most 32 differences.
func Diff(want, got *Node) []Difference {
	var out []Difference
	diffNode(want, got, "", &out)
	return out
}

func diffNode(w, g *Node, path string, out *[]Difference) {
	add := func(field, format string, a ...any) {
		if len(*out) < 32 {
			*out = append(*out, Difference{path, field, fmt.Sprintf(format, a...)})
		}
	}
	if w == nil || g == nil {
		if w != g {
			add("children", "node missing on one side (want %v, got %v)", w != nil, g != nil)
		}
		return
	}
	if w.Mode != g.Mode {
		add("mode", "want %#o got %#o", w.Mode, g.Mode)
	}
	if w.UID != g.UID {
		add("uid", "want %d got %d", w.UID, g.UID)
	}
	if w.GID != g.GID {
		add("gid", "want %d got %d", w.GID, g.GID)
	}
	if w.MTimeNs != g.MTimeNs {
		add("mtime", "want %d got %d", w.MTimeNs, g.MTimeNs)
	}
	if w.Flags != 0 && g.Flags != 0 && w.Flags != g.Flags {
		add("flags", "want %#x got %#x", w.Flags, g.Flags)
	}
	if len(w.Xattrs) != len(g.Xattrs) {
		add("xattrs", "want %d attributes got %d", len(w.Xattrs), len(g.Xattrs))
	} else {
		for i := range w.Xattrs {
			if w.Xattrs[i].Key != g.Xattrs[i].Key || !bytes.Equal(w.Xattrs[i].Val, g.Xattrs[i].Val) {
				add("xattrs", "attribute %d: want %q=%q got %q=%q", i, w.Xattrs[i].Key, w.Xattrs[i].Val, g.Xattrs[i].Key, g.Xattrs[i].Val)
				break
			}
		}
	}
	if !bytes.Equal(w.Data, g.Data) {
		add("data", "want %d bytes got %d bytes (or same length, different content)", len(w.Data), len(g.Data))
	}
	if w.Target != g.Target {
		add("target", "want %q got %q", w.Target, g.Target)
	}
	if w.Major != g.Major || w.Minor != g.Minor {
		add("device", "want %d,%d got %d,%d", w.Major, w.Minor, g.Major, g.Minor)
	}
	if len(w.Children) != len(g.Children) {
		add("children", "want %d children got %d", len(w.Children), len(g.Children))
	}
	for i := 0; i < len(w.Children) && i < len(g.Children); i++ {
		wc, gc := w.Children[i], g.Children[i]
		if wc.Name != gc.Name {
			add("name", "child %d: want %q got %q", i, wc.Name, gc.Name)
			continue
		}
		diffNode(wc, gc, join(path, wc.Name), out)
	}
}
