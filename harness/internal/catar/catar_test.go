package catar

import (
	"bytes"
	"encoding/binary"
	"fmt"
	"os"
	"path/filepath"
	"reflect"
	"strings"
	"testing"
)

// SelfTestSipHash is also called by property packages (exported through SelfTest).
func TestSipHashVectors(t *testing.T) {
	if err := SelfTestSipHash(); err != nil {
		t.Fatal(err)
	}
	k0 := binary.LittleEndian.Uint64([]byte{0, 1, 2, 3, 4, 5, 6, 7})
	k1 := binary.LittleEndian.Uint64([]byte{8, 9, 10, 11, 12, 13, 14, 15})
	msg := make([]byte, 0, 64)
	for i := 0; i < 64; i++ {
		want := binary.LittleEndian.Uint64(sipVectors[i][:])
		if got := SipHash24(k0, k1, msg); got != want {
			t.Fatalf("vector %d: got %#016x want %#016x", i, got, want)
		}
		msg = append(msg, byte(i))
	}
	// the paper's worked example (Appendix A): 15-byte message
	if got := SipHash24(k0, k1, msg[:15]); got != 0xa129ca6149be45e5 {
		t.Fatalf("paper example: %#x", got)
	}
}

func repoTestdata() string {
	if v := os.Getenv("VERIF_REPO"); v != "" {
		return filepath.Join(v, "testdata")
	}
	return "/repo/testdata"
}

// The casync-made fixtures must be accepted (also under the sorted-names rule: casync packs
// from disk in sorted order), listed correctly, and re-encoded byte-identically by Encode.
func TestFixtures(t *testing.T) {
	for name, want := range fixtureListings {
		b, err := os.ReadFile(filepath.Join(repoTestdata(), name+".catar"))
		if err != nil {
			t.Fatal(err)
		}
		root, errs := ValidateAll(b, ValidateOptions{RequireSorted: true})
		for _, e := range errs {
			t.Errorf("%s: %v", name, e)
		}
		if root == nil {
			t.Fatalf("%s: no tree", name)
		}
		var got []string
		Listing(root, "", &got)
		if !reflect.DeepEqual(got, want) {
			t.Errorf("%s: listing\n got  %s\n want %s", name, strings.Join(got, "\n      "), strings.Join(want, "\n      "))
		}
		if re := Encode(root, EncodeOptions{}); !bytes.Equal(re, b) {
			t.Errorf("%s: Encode(Validate(fixture)) differs from the fixture (len %d vs %d)", name, len(re), len(b))
		}
	}
	// content of one payload
	b, _ := os.ReadFile(filepath.Join(repoTestdata(), "flat.catar"))
	root, _ := Validate(b)
	if string(root.Children[1].Data) != "file1-content\n\n" || root.Children[0].Major != 1 || root.Children[0].Minor != 8 ||
		root.Children[0].MTimeNs != 1513276745623850300 || root.SELinux != "unconfined_u:object_r:user_home_t:s0" {
		t.Errorf("flat.catar: decoded fields wrong: %+v", root.Children[0])
	}
}

func sampleTree() *Node {
	dir := func(name string, kids ...*Node) *Node {
		return &Node{Name: name, Mode: S_IFDIR | 0o755, UID: 1, GID: 2, MTimeNs: 1e18, Children: kids}
	}
	file := func(name string, data string) *Node {
		return &Node{Name: name, Mode: S_IFREG | 0o4644, UID: 1<<32 - 2, GID: 7, MTimeNs: 12345, Data: []byte(data)}
	}
	var many []*Node
	for i := 0; i < 37; i++ {
		many = append(many, file(fmt.Sprintf("f%03d", i), strings.Repeat("x", i)))
	}
	return dir("",
		file("a", "hello"),
		&Node{Name: "blk", Mode: S_IFBLK | 0o600, Major: 8, Minor: 1},
		&Node{Name: "chr", Mode: S_IFCHR | 0o666, Major: 4095, Minor: 1<<20 - 1},
		dir("d", dir("e", dir("f", file("deep", "")))),
		dir("empty"),
		&Node{Name: "fifo", Mode: S_IFIFO | 0o644},
		&Node{Name: "lnk", Mode: S_IFLNK | 0o777, Target: "../x", Xattrs: []Xattr{{"trusted.a", []byte{0, 1, 0}}}},
		dir("many", many...),
		&Node{Name: strings.Repeat("n", 255), Mode: S_IFREG | 0o600, Data: []byte{},
			Xattrs: []Xattr{{"user.a", []byte("1")}, {"user.b", nil}, {"user.c", []byte("\x00")}}},
		&Node{Name: "sock", Mode: S_IFSOCK | 0o755},
	)
}

func normalise(n *Node) {
	if n.Flags == 0 {
		n.Flags = DefaultFlags
	}
	if n.Kind() == S_IFREG && n.Data == nil {
		n.Data = []byte{}
	}
	for i := range n.Xattrs {
		if n.Xattrs[i].Val == nil {
			n.Xattrs[i].Val = []byte{}
		}
	}
	for _, c := range n.Children {
		normalise(c)
	}
}

func TestRoundTrip(t *testing.T) {
	for _, noTerm := range []bool{false, true} {
		tree := sampleTree()
		b := Encode(tree, EncodeOptions{XattrNoTerminator: noTerm})
		got, errs := ValidateAll(b, ValidateOptions{RequireSorted: true, XattrNoTerminator: noTerm})
		for _, e := range errs {
			t.Errorf("noTerm=%v: %v", noTerm, e)
		}
		normalise(tree)
		for _, d := range Diff(tree, got) {
			t.Errorf("round trip differs: %v", d)
		}
		if !reflect.DeepEqual(got, tree) {
			t.Errorf("round trip: trees not deeply equal")
		}
	}
}

// every hostile knob of the encoder and a few byte-level corruptions must be reported under
// the expected rule
func TestRejects(t *testing.T) {
	codes := func(b []byte, o ValidateOptions) string {
		_, errs := ValidateAll(b, o)
		var s []string
		for _, e := range errs {
			s = append(s, e.Code)
		}
		return strings.Join(s, ",")
	}
	has := func(name string, b []byte, o ValidateOptions, want string) {
		t.Helper()
		got := codes(b, o)
		for _, c := range strings.Split(got, ",") {
			for _, w := range strings.Split(want, "|") {
				if c == w {
					return
				}
			}
		}
		t.Errorf("%s: findings [%s], expected %s", name, got, want)
	}
	enc := func(o EncodeOptions) []byte { return Encode(sampleTree(), o) }
	has("no goodbye", enc(EncodeOptions{NoGoodbye: true}), ValidateOptions{}, "dir-unexpected-element|goodbye-missing")
	has("no root goodbye", enc(EncodeOptions{NoRootGoodbye: true}), ValidateOptions{}, "goodbye-missing")
	has("unsorted goodbye", enc(EncodeOptions{GoodbyeUnsorted: true}), ValidateOptions{}, "goodbye-bst")
	has("unsorted goodbye lookup", enc(EncodeOptions{GoodbyeUnsorted: true}), ValidateOptions{}, "goodbye-lookup")
	has("offset delta", enc(EncodeOptions{GoodbyeOffsetDelta: 1}), ValidateOptions{}, "goodbye-item-offset")
	has("no marker", enc(EncodeOptions{GoodbyeTailNoMarker: true}), ValidateOptions{}, "goodbye-tail-marker")
	has("xattr terminator", enc(EncodeOptions{XattrNoTerminator: true}), ValidateOptions{}, "xattr-terminator")
	has("payload size +1", enc(EncodeOptions{PayloadSizeDelta: 1}), ValidateOptions{}, "dir-unexpected-element|size-out-of-range|size-too-small")
	has("filename size -1", enc(EncodeOptions{FilenameSizeDelta: -1}), ValidateOptions{}, "filename-format")

	good := enc(EncodeOptions{})
	has("trailing", append(append([]byte{}, good...), 0), ValidateOptions{}, "trailing-bytes")
	has("truncated", good[:len(good)-1], ValidateOptions{}, "size-out-of-range")
	has("empty", nil, ValidateOptions{}, "entry-expected")

	mk := func(kids ...*Node) []byte {
		return Encode(&Node{Mode: S_IFDIR | 0o755, Children: kids}, EncodeOptions{})
	}
	f := func(name string) *Node { return &Node{Name: name, Mode: S_IFREG | 0o644} }
	has("unsorted names", mk(f("b"), f("a")), ValidateOptions{RequireSorted: true}, "filename-order")
	if c := codes(mk(f("b"), f("a")), ValidateOptions{}); c != "" {
		t.Errorf("unsorted names without the sorted rule: %s", c)
	}
	has("dup names", mk(f("a"), f("a")), ValidateOptions{}, "filename-duplicate")
	has("dotdot", mk(f("..")), ValidateOptions{}, "filename-dot")
	has("slash", mk(f("a/b")), ValidateOptions{}, "filename-slash")
	has("empty name", mk(f("")), ValidateOptions{}, "filename-empty")
	has("long name", mk(f(strings.Repeat("x", 256))), ValidateOptions{}, "filename-too-long")
	has("nul in name", mk(f("a\x00b")), ValidateOptions{}, "filename-format")
	has("xattr order", mk(&Node{Name: "a", Mode: S_IFREG, Xattrs: []Xattr{{"user.b", nil}, {"user.a", nil}}}), ValidateOptions{}, "xattr-order")
	has("mode bits", mk(&Node{Name: "a", Mode: S_IFREG | 0o200000}), ValidateOptions{}, "mode-bits")
	has("uid range", mk(&Node{Name: "a", Mode: S_IFREG, UID: 1 << 32}), ValidateOptions{}, "id-range")
	has("flags differ", mk(&Node{Name: "a", Mode: S_IFREG, Flags: DefaultFlags | WithUserNames}), ValidateOptions{}, "flags-differ")

	// FILENAME not followed by ENTRY
	var b []byte
	b = AppendEntry(b, Entry{FeatureFlags: DefaultFlags, Mode: uint64(S_IFDIR | 0o755)})
	f1 := len(b)
	b = AppendFilename(b, "x")
	g := len(b)
	b = AppendGoodbye(b, []GoodbyeItem{{Offset: uint64(g - f1), Size: uint64(g - f1), Hash: NameHash("x")}}, 0)
	has("filename without entry", b, ValidateOptions{}, "filename-without-entry")

	// wrong hash / wrong size / wrong tail
	flip := func(off int) []byte {
		c := append([]byte{}, mk(f("a"), f("b"), f("c"))...)
		c[off] ^= 1
		return c
	}
	tab := len(mk(f("a"), f("b"), f("c"))) - (16 + 24*4)
	has("item offset", flip(tab+16), ValidateOptions{}, "goodbye-item-offset")
	has("item size", flip(tab+16+8), ValidateOptions{}, "goodbye-item-size")
	has("item hash", flip(tab+16+16), ValidateOptions{}, "goodbye-item-hash")
	has("tail offset", flip(tab+16+72), ValidateOptions{}, "goodbye-tail-offset")
	has("tail size", flip(tab+16+72+8), ValidateOptions{}, "goodbye-tail-size")
	has("goodbye size", flip(tab), ValidateOptions{}, "size-out-of-range")
}

// HeapFill yields a search tree whose shape is the complete tree, for every n
func TestHeapFill(t *testing.T) {
	for n := 0; n <= 1100; n++ {
		sorted := make([]GoodbyeItem, n)
		for i := range sorted {
			sorted[i] = GoodbyeItem{Hash: uint64(i), Offset: uint64(n - i)}
		}
		out := HeapFill(sorted)
		var walk func(i int, lo, hi int64) int
		walk = func(i int, lo, hi int64) int {
			if i >= n {
				return 0
			}
			h := int64(out[i].Hash)
			if h <= lo || h >= hi {
				t.Fatalf("n=%d slot %d: key %d outside (%d,%d)", n, i, h, lo, hi)
			}
			return 1 + walk(2*i+1, lo, h) + walk(2*i+2, h, hi)
		}
		if c := walk(0, -1, int64(n)); c != n {
			t.Fatalf("n=%d: %d reachable", n, c)
		}
	}
}
