package catar

import (
	"encoding/binary"
	"sort"
)

// Element type tags (caformat.h).
const (
	TypeEntry           uint64 = 0x1396fabcea5bbb51
	TypeUser            uint64 = 0xf453131aaeeaccb3
	TypeGroup           uint64 = 0x25eb6ac969396a52
	TypeXattr           uint64 = 0xb8157091f80bc486
	TypeACLUser         uint64 = 0x297dc88b2ef12faf
	TypeACLGroup        uint64 = 0x36f2acb56cb3dd0b
	TypeACLGroupObj     uint64 = 0x23047110441f38f3
	TypeACLDefault      uint64 = 0xfe3eeda6823c8cd0
	TypeACLDefaultUser  uint64 = 0xbdf03df9bd010a91
	TypeACLDefaultGroup uint64 = 0xa0cb1168782d1f51
	TypeFCaps           uint64 = 0xf7267db0afed0629
	TypeSELinux         uint64 = 0x46faf0602fd26c59
	TypeQuotaProjID     uint64 = 0x161baf2d8772a72b
	TypeSymlink         uint64 = 0x664a6fb6830e0d6c
	TypeDevice          uint64 = 0xac3dace369dfe643
	TypePayload         uint64 = 0x8b9e1d93d6dcffc9
	TypeFilename        uint64 = 0x6dbb6ebcb3161f0b
	TypeGoodbye         uint64 = 0xdfd35c5e8327c403

	GoodbyeTailMarker uint64 = 0x57446fa533702943
)

// Feature flags of the ENTRY element.
const (
	With16BitUIDs   uint64 = 0x1
	With32BitUIDs   uint64 = 0x2
	WithUserNames   uint64 = 0x4
	WithSecTime     uint64 = 0x8
	WithUSecTime    uint64 = 0x10
	WithNSecTime    uint64 = 0x20
	With2SecTime    uint64 = 0x40
	WithReadOnly    uint64 = 0x80
	WithPermissions uint64 = 0x100
	WithSymlinks    uint64 = 0x200
	WithDeviceNodes uint64 = 0x400
	WithFIFOs       uint64 = 0x800
	WithSockets     uint64 = 0x1000
	WithXattrs      uint64 = 0x10000000
	WithACL         uint64 = 0x20000000
	WithSELinux     uint64 = 0x40000000
	WithFcaps       uint64 = 0x80000000
	WithQuotaProjID uint64 = 0x100000000
	ExcludeFile     uint64 = 0x1000000000000000
	SHA512256       uint64 = 0x2000000000000000
	ExcludeSubmount uint64 = 0x4000000000000000
	ExcludeNoDump   uint64 = 0x8000000000000000

	// DefaultFlags is what the encoder writes for nodes whose Flags field is zero: the set
	// of features a "best" casync archive without user names / ACL / SELinux / fcaps uses.
	DefaultFlags = With32BitUIDs | WithNSecTime | WithPermissions | WithSymlinks | WithDeviceNodes |
		WithFIFOs | WithSockets | WithXattrs | SHA512256 | ExcludeNoDump | ExcludeFile
)

// stat(2) mode bits.
const (
	S_IFMT   uint32 = 0o170000
	S_IFSOCK uint32 = 0o140000
	S_IFLNK  uint32 = 0o120000
	S_IFREG  uint32 = 0o100000
	S_IFBLK  uint32 = 0o060000
	S_IFDIR  uint32 = 0o040000
	S_IFCHR  uint32 = 0o020000
	S_IFIFO  uint32 = 0o010000
)

// Entry is the fixed part of an ENTRY element.
type Entry struct {
	FeatureFlags uint64
	Mode         uint64
	Flags        uint64 // chattr-style flags word (always 0 in archives made without the flag features)
	UID, GID     uint64
	MTimeNs      uint64
}

// GoodbyeItem is one 24-byte record of a goodbye table.
type GoodbyeItem struct {
	Offset uint64 // distance from the FILENAME element of the child to the start of the GOODBYE element
	Size   uint64 // length of FILENAME element + the child's serialisation
	Hash   uint64 // SipHash-2-4 of the child's name
}

func le64(b []byte, v ...uint64) []byte {
	for _, x := range v {
		b = binary.LittleEndian.AppendUint64(b, x)
	}
	return b
}

// AppendHeader writes a bare element header. Use it (with AppendRaw) to write elements whose
// size field does not match their body.
func AppendHeader(b []byte, size, typ uint64) []byte { return le64(b, size, typ) }

// AppendRaw appends bytes verbatim.
func AppendRaw(b []byte, raw []byte) []byte { return append(b, raw...) }

// AppendElement writes header(16+len(body), typ) followed by body.
func AppendElement(b []byte, typ uint64, body []byte) []byte {
	return append(le64(b, 16+uint64(len(body)), typ), body...)
}

// PatchSize overwrites the size field of the element that starts at offset off.
func PatchSize(b []byte, off int, size uint64) { binary.LittleEndian.PutUint64(b[off:], size) }

// AppendEntry writes an ENTRY element (64 bytes).
func AppendEntry(b []byte, e Entry) []byte {
	return le64(b, 64, TypeEntry, e.FeatureFlags, e.Mode, e.Flags, e.UID, e.GID, e.MTimeNs)
}

func appendString(b []byte, typ uint64, s string) []byte {
	b = le64(b, 16+uint64(len(s))+1, typ)
	b = append(b, s...)
	return append(b, 0)
}

// AppendFilename writes a FILENAME element; name is written verbatim (it may be empty, "..",
// contain "/" or NUL bytes: the caller decides how hostile the archive is).
func AppendFilename(b []byte, name string) []byte { return appendString(b, TypeFilename, name) }

// AppendSymlink writes a SYMLINK element with a NUL-terminated target.
func AppendSymlink(b []byte, target string) []byte { return appendString(b, TypeSymlink, target) }

// AppendUser, AppendGroup and AppendSELinux write the NUL-terminated string elements.
func AppendUser(b []byte, name string) []byte     { return appendString(b, TypeUser, name) }
func AppendGroup(b []byte, name string) []byte    { return appendString(b, TypeGroup, name) }
func AppendSELinux(b []byte, label string) []byte { return appendString(b, TypeSELinux, label) }

// AppendPayload writes a PAYLOAD element.
func AppendPayload(b []byte, data []byte) []byte { return AppendElement(b, TypePayload, data) }

// AppendDevice writes a DEVICE element (32 bytes).
func AppendDevice(b []byte, major, minor uint64) []byte {
	return le64(b, 32, TypeDevice, major, minor)
}

// AppendXattr writes an XATTR element in the layout desync reads and writes (and DESIGN.md
// A.3 specifies): key NUL value NUL, size 16+len(key)+1+len(val)+1.
func AppendXattr(b []byte, key string, val []byte) []byte {
	b = le64(b, 16+uint64(len(key))+1+uint64(len(val))+1, TypeXattr)
	b = append(b, key...)
	b = append(b, 0)
	b = append(b, val...)
	return append(b, 0)
}

// AppendXattrNoTerminator writes an XATTR element without a byte after the value
// (key NUL value, size 16+len(key)+1+len(val)).
func AppendXattrNoTerminator(b []byte, key string, val []byte) []byte {
	b = le64(b, 16+uint64(len(key))+1+uint64(len(val)), TypeXattr)
	b = append(b, key...)
	b = append(b, 0)
	return append(b, val...)
}

// AppendGoodbyeRaw writes a GOODBYE element holding exactly the given records in the given
// order (no sorting, no tail item added).
func AppendGoodbyeRaw(b []byte, items []GoodbyeItem) []byte {
	b = le64(b, 16+24*uint64(len(items)), TypeGoodbye)
	for _, it := range items {
		b = le64(b, it.Offset, it.Size, it.Hash)
	}
	return b
}

// AppendGoodbye writes the well-formed GOODBYE element for a directory whose ENTRY element
// started at offset entryStart of b and whose children are described by items (any order):
// the items are sorted by (hash, offset), laid out as a complete binary search tree and
// followed by the tail item (len(b)-entryStart, element size, tail marker).
func AppendGoodbye(b []byte, items []GoodbyeItem, entryStart int) []byte {
	tab := HeapFill(SortItems(items))
	tab = append(tab, GoodbyeItem{
		Offset: uint64(len(b) - entryStart),
		Size:   16 + 24*uint64(len(items)+1),
		Hash:   GoodbyeTailMarker,
	})
	return AppendGoodbyeRaw(b, tab)
}

// SortItems returns a copy of items ordered by hash, ties by offset.
func SortItems(items []GoodbyeItem) []GoodbyeItem {
	s := append([]GoodbyeItem(nil), items...)
	sort.Slice(s, func(i, j int) bool {
		if s[i].Hash != s[j].Hash {
			return s[i].Hash < s[j].Hash
		}
		return s[i].Offset < s[j].Offset
	})
	return s
}

// HeapFill lays a sorted list out as a complete binary search tree in implicit-heap order
// (children of slot i are 2i+1 and 2i+2): an in-order walk of the heap shape of size n visits
// the slots in ascending key order, so the k-th visited slot receives sorted[k].
func HeapFill(sorted []GoodbyeItem) []GoodbyeItem {
	n := len(sorted)
	out := make([]GoodbyeItem, n)
	k := 0
	var rec func(i int)
	rec = func(i int) {
		if i >= n {
			return
		}
		rec(2*i + 1)
		out[i] = sorted[k]
		k++
		rec(2*i + 2)
	}
	rec(0)
	return out
}
