// Package catar is an independent implementation of casync's catar archive format:
// SipHash-2-4, low-level element writers, a tree encoder (also able to fabricate hostile
// archives) and a strict validating decoder. It deliberately shares no code with desync:
// nothing in this package imports github.com/folbricht/desync or the siphash library it uses.
package catar

import "math/bits"

// casync's fixed key for the name hash of goodbye items.
const (
	HashKey0 uint64 = 0x8574442b0f1d84b3
	HashKey1 uint64 = 0x2736ed30d1c22ec1
)

// SipHash24 is SipHash-2-4 (Aumasson, Bernstein 2012) written from the paper: the state is
// initialised from the key xor the four constants "somepseudorandomlygeneratedbytes", each
// 8-byte little-endian message word is absorbed with two SipRounds, the last word carries the
// remaining bytes and the message length mod 256 in its top byte, and the finalisation xors
// 0xff into v2 and runs four more rounds.
func SipHash24(k0, k1 uint64, msg []byte) uint64 {
	v0 := k0 ^ 0x736f6d6570736575
	v1 := k1 ^ 0x646f72616e646f6d
	v2 := k0 ^ 0x6c7967656e657261
	v3 := k1 ^ 0x7465646279746573

	round := func() {
		v0 += v1
		v1 = bits.RotateLeft64(v1, 13)
		v1 ^= v0
		v0 = bits.RotateLeft64(v0, 32)
		v2 += v3
		v3 = bits.RotateLeft64(v3, 16)
		v3 ^= v2
		v0 += v3
		v3 = bits.RotateLeft64(v3, 21)
		v3 ^= v0
		v2 += v1
		v1 = bits.RotateLeft64(v1, 17)
		v1 ^= v2
		v2 = bits.RotateLeft64(v2, 32)
	}
	absorb := func(m uint64) {
		v3 ^= m
		round()
		round()
		v0 ^= m
	}

	n := len(msg)
	i := 0
	for ; i+8 <= n; i += 8 {
		var m uint64
		for j := 7; j >= 0; j-- {
			m = m<<8 | uint64(msg[i+j])
		}
		absorb(m)
	}
	last := uint64(n&0xff) << 56
	for j := 0; i+j < n; j++ {
		last |= uint64(msg[i+j]) << (8 * uint(j))
	}
	absorb(last)

	v2 ^= 0xff
	round()
	round()
	round()
	round()
	return v0 ^ v1 ^ v2 ^ v3
}

// NameHash is the hash stored in a goodbye item for a child called name.
func NameHash(name string) uint64 { return SipHash24(HashKey0, HashKey1, []byte(name)) }
