package catar

import (
	"bytes"
	"encoding/binary"
	"fmt"
	"sort"
)

// Error is one finding of the validator. Code is a stable identifier of the rule that was
// broken (usable in failure signatures); Off is the byte offset of the offending element.
type Error struct {
	Code  string
	Off   int
	Path  string
	Msg   string
	Fatal bool // the element structure could not be followed beyond this point
}

func (e *Error) Error() string {
	return fmt.Sprintf("catar: %s at offset %d (%q): %s", e.Code, e.Off, e.Path, e.Msg)
}

// ValidateOptions select the optional rules.
type ValidateOptions struct {
	RequireSorted       bool // FILENAME elements of one directory must be in strictly ascending byte order
	AllowDuplicateNames bool // do not report two children of one directory with the same name
	XattrNoTerminator   bool // XATTR elements are key NUL value (no byte after the value)
}

// Validate checks that b is exactly one well-formed catar archive (DESIGN.md Appendix A.3)
// and returns the tree it describes. The first finding is returned as the error.
func Validate(b []byte) (*Node, error) {
	n, errs := ValidateAll(b, ValidateOptions{})
	if len(errs) > 0 {
		return n, errs[0]
	}
	return n, nil
}

// ValidateAll is Validate with options, returning every finding. Findings that leave the
// element structure parseable (wrong goodbye contents, ordering, name rules, flag and range
// rules) do not stop the walk; a structural finding is the last one in the list and the tree
// returned is then incomplete (nil if not even the root ENTRY could be read).
func ValidateAll(b []byte, o ValidateOptions) (*Node, []*Error) {
	v := &validator{b: b, o: o}
	root, end, fatal := v.node(0, "", 0, false)
	if fatal != nil {
		v.errs = append(v.errs, fatal)
		return root, v.errs
	}
	if end != len(b) {
		v.errs = append(v.errs, &Error{Code: "trailing-bytes", Off: end, Msg: fmt.Sprintf("%d bytes after the end of the root node", len(b)-end)})
	}
	return root, v.errs
}

const (
	maxDepth    = 4096
	maxFindings = 64
)

type validator struct {
	b         []byte
	o         ValidateOptions
	flags     uint64
	haveFlags bool
	errs      []*Error
}

func (v *validator) soft(code string, off int, path string, format string, a ...any) {
	if len(v.errs) < maxFindings {
		v.errs = append(v.errs, &Error{Code: code, Off: off, Path: path, Msg: fmt.Sprintf(format, a...)})
	}
}

func fatalf(code string, off int, path string, format string, a ...any) *Error {
	return &Error{code, off, path, fmt.Sprintf(format, a...), true}
}

func (v *validator) u64(off int) uint64 { return binary.LittleEndian.Uint64(v.b[off:]) }

// header reads the element header at pos and checks that the element lies inside the input.
func (v *validator) header(pos int, path string) (size int, typ uint64, err *Error) {
	rest := len(v.b) - pos
	if rest < 16 {
		return 0, 0, fatalf("truncated-header", pos, path, "%d bytes left, an element header needs 16", rest)
	}
	sz := v.u64(pos)
	typ = v.u64(pos + 8)
	if sz < 16 {
		return 0, typ, fatalf("size-too-small", pos, path, "%s: size field %d < 16", TypeName(typ), sz)
	}
	if sz > uint64(rest) {
		return 0, typ, fatalf("size-out-of-range", pos, path, "%s: size field %d but only %d bytes left", TypeName(typ), sz, rest)
	}
	return int(sz), typ, nil
}

// TypeName gives the symbolic name of an element type tag.
func TypeName(t uint64) string {
	switch t {
	case TypeEntry:
		return "ENTRY"
	case TypeUser:
		return "USER"
	case TypeGroup:
		return "GROUP"
	case TypeXattr:
		return "XATTR"
	case TypeACLUser:
		return "ACL_USER"
	case TypeACLGroup:
		return "ACL_GROUP"
	case TypeACLGroupObj:
		return "ACL_GROUP_OBJ"
	case TypeACLDefault:
		return "ACL_DEFAULT"
	case TypeACLDefaultUser:
		return "ACL_DEFAULT_USER"
	case TypeACLDefaultGroup:
		return "ACL_DEFAULT_GROUP"
	case TypeFCaps:
		return "FCAPS"
	case TypeSELinux:
		return "SELINUX"
	case TypeQuotaProjID:
		return "QUOTA_PROJID"
	case TypeSymlink:
		return "SYMLINK"
	case TypeDevice:
		return "DEVICE"
	case TypePayload:
		return "PAYLOAD"
	case TypeFilename:
		return "FILENAME"
	case TypeGoodbye:
		return "GOODBYE"
	}
	return fmt.Sprintf("type-%#x", t)
}

// attribute elements between ENTRY and the payload, in casync's order
type attrRule struct {
	rank   int
	multi  bool
	flag   uint64 // feature flag that must be set
	minLen int    // minimal element size
	fixed  bool   // size must equal minLen
	str    bool   // body is a non-empty NUL-terminated string without interior NUL
}

var attrRules = map[uint64]attrRule{
	TypeUser:            {rank: 1, flag: WithUserNames, minLen: 18, str: true},
	TypeGroup:           {rank: 2, flag: WithUserNames, minLen: 18, str: true},
	TypeXattr:           {rank: 3, multi: true, flag: WithXattrs, minLen: 18},
	TypeACLUser:         {rank: 4, multi: true, flag: WithACL, minLen: 32},
	TypeACLGroup:        {rank: 5, multi: true, flag: WithACL, minLen: 32},
	TypeACLGroupObj:     {rank: 6, flag: WithACL, minLen: 24, fixed: true},
	TypeACLDefault:      {rank: 7, flag: WithACL, minLen: 48, fixed: true},
	TypeACLDefaultUser:  {rank: 8, multi: true, flag: WithACL, minLen: 32},
	TypeACLDefaultGroup: {rank: 9, multi: true, flag: WithACL, minLen: 32},
	TypeFCaps:           {rank: 10, flag: WithFcaps, minLen: 17},
	TypeSELinux:         {rank: 11, flag: WithSELinux, minLen: 18, str: true},
	TypeQuotaProjID:     {rank: 12, flag: WithQuotaProjID, minLen: 24, fixed: true},
}

func join(dir, name string) string {
	if dir == "" {
		return name
	}
	return dir + "/" + name
}

// cstring checks body = text NUL without interior NUL and returns text.
func cstring(body []byte) (string, bool) {
	if len(body) == 0 || body[len(body)-1] != 0 {
		return string(body), false
	}
	s := body[:len(body)-1]
	return string(s), bytes.IndexByte(s, 0) < 0
}

// node parses ENTRY attrs* body starting at pos.
func (v *validator) node(pos int, path string, depth int, afterFilename bool) (*Node, int, *Error) {
	if depth > maxDepth {
		return nil, pos, fatalf("too-deep", pos, path, "nesting deeper than %d", maxDepth)
	}
	start := pos
	if pos == len(v.b) {
		if afterFilename {
			return nil, pos, fatalf("filename-without-entry", pos, path, "input ends after a FILENAME element")
		}
		return nil, pos, fatalf("entry-expected", pos, path, "empty input")
	}
	size, typ, herr := v.header(pos, path)
	if typ != TypeEntry && (herr == nil || herr.Code != "truncated-header") {
		if afterFilename {
			return nil, pos, fatalf("filename-without-entry", pos, path, "FILENAME is followed by %s instead of ENTRY", TypeName(typ))
		}
		return nil, pos, fatalf("entry-expected", pos, path, "found %s where a node must begin", TypeName(typ))
	}
	if herr != nil {
		return nil, pos, herr
	}
	if size != 64 {
		return nil, pos, fatalf("entry-size", pos, path, "ENTRY size %d, must be 64", size)
	}
	n := &Node{}
	n.Flags = v.u64(pos + 16)
	mode := v.u64(pos + 24)
	flags2 := v.u64(pos + 32)
	n.UID = v.u64(pos + 40)
	n.GID = v.u64(pos + 48)
	n.MTimeNs = v.u64(pos + 56)
	n.Mode = uint32(mode)
	pos += 64

	if !v.haveFlags {
		v.flags, v.haveFlags = n.Flags, true
	} else if n.Flags != v.flags {
		v.soft("flags-differ", start, path, "feature flags %#x differ from the root's %#x", n.Flags, v.flags)
	}
	if mode&^uint64(S_IFMT|0o7777) != 0 {
		v.soft("mode-bits", start, path, "mode %#o has bits outside S_IFMT|07777", mode)
	}
	if flags2 != 0 && n.Flags&0x3ffe000 == 0 { // no chattr/FAT flag feature enabled
		v.soft("entry-flags", start, path, "flags word %#x but no file-flag feature is enabled", flags2)
	}
	idLimit := uint64(0)
	switch {
	case n.Flags&With32BitUIDs != 0:
		idLimit = 1 << 32
	case n.Flags&With16BitUIDs != 0:
		idLimit = 1 << 16
	}
	if idLimit == 0 {
		if n.UID != 0 || n.GID != 0 {
			v.soft("id-range", start, path, "uid %d gid %d but no UID feature is enabled", n.UID, n.GID)
		}
	} else if n.UID >= idLimit || n.GID >= idLimit {
		v.soft("id-range", start, path, "uid %d gid %d do not fit the enabled UID width", n.UID, n.GID)
	}

	// attribute elements
	lastRank := 0
	prevKey, haveKey := "", false
	for pos < len(v.b) {
		if len(v.b)-pos < 16 {
			return n, pos, fatalf("truncated-header", pos, path, "%d bytes left, an element header needs 16", len(v.b)-pos)
		}
		rule, isAttr := attrRules[v.u64(pos+8)]
		if !isAttr {
			break
		}
		size, typ, herr := v.header(pos, path)
		if herr != nil {
			return n, pos, herr
		}
		name := TypeName(typ)
		if size < rule.minLen || (rule.fixed && size != rule.minLen) {
			return n, pos, fatalf("attr-size", pos, path, "%s size %d (minimum/fixed %d)", name, size, rule.minLen)
		}
		if rule.rank < lastRank {
			v.soft("attr-order", pos, path, "%s after an element that must follow it", name)
		} else if rule.rank == lastRank && !rule.multi {
			v.soft("attr-duplicate", pos, path, "second %s element", name)
		}
		if rule.rank > lastRank {
			lastRank = rule.rank
		}
		if n.Flags&rule.flag == 0 {
			v.soft("attr-flag", pos, path, "%s present but feature flag %#x is not set", name, rule.flag)
		}
		body := v.b[pos+16 : pos+size]
		switch {
		case rule.str:
			s, ok := cstring(body)
			if !ok || s == "" {
				v.soft("attr-format", pos, path, "%s is not a non-empty NUL-terminated string", name)
			}
			switch typ {
			case TypeUser:
				n.User = s
			case TypeGroup:
				n.Group = s
			case TypeSELinux:
				n.SELinux = s
			}
		case typ == TypeXattr:
			i := bytes.IndexByte(body, 0)
			if i < 0 {
				return n, pos, fatalf("xattr-format", pos, path, "XATTR without NUL after the key")
			}
			key, val := string(body[:i]), body[i+1:]
			if key == "" {
				v.soft("xattr-format", pos, path, "XATTR with empty key")
			}
			if !v.o.XattrNoTerminator {
				if len(val) == 0 || val[len(val)-1] != 0 {
					v.soft("xattr-terminator", pos, path, "XATTR %q value is not followed by NUL", key)
				} else {
					val = val[:len(val)-1]
				}
			}
			if haveKey && key <= prevKey {
				v.soft("xattr-order", pos, path, "XATTR key %q after %q", key, prevKey)
			}
			prevKey, haveKey = key, true
			n.Xattrs = append(n.Xattrs, Xattr{Key: key, Val: append([]byte{}, val...)})
		default:
			if size > 32 && (typ == TypeACLUser || typ == TypeACLGroup || typ == TypeACLDefaultUser || typ == TypeACLDefaultGroup) {
				if _, ok := cstring(body[16:]); !ok {
					v.soft("attr-format", pos, path, "%s name is not NUL-terminated", name)
				}
			}
			n.Extra = append(n.Extra, Element{Type: typ, Body: append([]byte(nil), body...)})
		}
		pos += size
	}

	// body
	kind := n.Mode & S_IFMT
	expect := func(want uint64, what string) (int, *Error) {
		if pos == len(v.b) {
			return 0, fatalf("body-missing", pos, path, "input ends where the %s of a %s must follow", TypeName(want), what)
		}
		size, typ, herr := v.header(pos, path)
		if typ != want && (herr == nil || herr.Code != "truncated-header") {
			return 0, fatalf("body-type", pos, path, "%s: expected %s, found %s", what, TypeName(want), TypeName(typ))
		}
		return size, herr
	}
	switch kind {
	case S_IFREG:
		size, err := expect(TypePayload, "regular file")
		if err != nil {
			return n, pos, err
		}
		n.Data = append([]byte{}, v.b[pos+16:pos+size]...)
		pos += size
	case S_IFLNK:
		if n.Flags&WithSymlinks == 0 {
			v.soft("kind-flag", start, path, "symlink but feature flag symlinks is not set")
		}
		size, err := expect(TypeSymlink, "symlink")
		if err != nil {
			return n, pos, err
		}
		if size < 17 {
			return n, pos, fatalf("symlink-size", pos, path, "SYMLINK size %d leaves no room for the terminator", size)
		}
		s, ok := cstring(v.b[pos+16 : pos+size])
		if !ok {
			v.soft("symlink-format", pos, path, "SYMLINK target is not a NUL-terminated string without interior NUL")
		}
		n.Target = s
		pos += size
	case S_IFCHR, S_IFBLK:
		if n.Flags&WithDeviceNodes == 0 {
			v.soft("kind-flag", start, path, "device node but feature flag device-nodes is not set")
		}
		size, err := expect(TypeDevice, "device node")
		if err != nil {
			return n, pos, err
		}
		if size != 32 {
			return n, pos, fatalf("device-size", pos, path, "DEVICE size %d, must be 32", size)
		}
		n.Major, n.Minor = v.u64(pos+16), v.u64(pos+24)
		pos += size
	case S_IFIFO:
		if n.Flags&WithFIFOs == 0 {
			v.soft("kind-flag", start, path, "fifo but feature flag fifos is not set")
		}
	case S_IFSOCK:
		if n.Flags&WithSockets == 0 {
			v.soft("kind-flag", start, path, "socket but feature flag sockets is not set")
		}
	case S_IFDIR:
		end, err := v.dir(n, start, pos, path, depth)
		if err != nil {
			return n, end, err
		}
		pos = end
	default:
		return n, pos, fatalf("mode-type", start, path, "mode %#o has no known file type", mode)
	}
	return n, pos, nil
}

type childSpan struct {
	fstart, end int
	name        string
}

// dir parses ( FILENAME node )* GOODBYE for the directory whose ENTRY started at entryStart.
func (v *validator) dir(n *Node, entryStart, pos int, path string, depth int) (int, *Error) {
	var spans []childSpan
	seen := map[string]bool{}
	for {
		if pos == len(v.b) {
			return pos, fatalf("goodbye-missing", pos, path, "input ends inside a directory (no GOODBYE)")
		}
		size, typ, herr := v.header(pos, path)
		if herr != nil {
			return pos, herr
		}
		switch typ {
		case TypeFilename:
			if size < 17 {
				return pos, fatalf("filename-size", pos, path, "FILENAME size %d leaves no room for the terminator", size)
			}
			name, ok := cstring(v.b[pos+16 : pos+size])
			cpath := join(path, name)
			if !ok {
				v.soft("filename-format", pos, cpath, "FILENAME is not a NUL-terminated string without interior NUL")
			}
			switch {
			case name == "":
				v.soft("filename-empty", pos, cpath, "empty name")
			case name == "." || name == "..":
				v.soft("filename-dot", pos, cpath, "name %q", name)
			case len(name) > 255:
				v.soft("filename-too-long", pos, cpath, "name of %d bytes", len(name))
			}
			if bytes.IndexByte([]byte(name), '/') >= 0 {
				v.soft("filename-slash", pos, cpath, "name contains a slash")
			}
			if len(spans) > 0 {
				prev := spans[len(spans)-1].name
				if v.o.RequireSorted && name <= prev {
					v.soft("filename-order", pos, cpath, "name %q follows %q: not in strictly ascending byte order", name, prev)
				}
			}
			if seen[name] && !v.o.AllowDuplicateNames {
				v.soft("filename-duplicate", pos, cpath, "second child called %q", name)
			}
			seen[name] = true
			child, end, err := v.node(pos+size, cpath, depth+1, true)
			if child != nil {
				child.Name = name
				n.Children = append(n.Children, child)
			}
			if err != nil {
				return end, err
			}
			spans = append(spans, childSpan{pos, end, name})
			pos = end
		case TypeGoodbye:
			v.goodbye(pos, size, entryStart, spans, path)
			return pos + size, nil
		default:
			return pos, fatalf("dir-unexpected-element", pos, path, "%s where FILENAME or GOODBYE must follow", TypeName(typ))
		}
	}
}

func (v *validator) goodbye(g, size, entryStart int, spans []childSpan, path string) {
	n := len(spans)
	if (size-16)%24 != 0 || size < 40 {
		v.soft("goodbye-size", g, path, "GOODBYE size %d is not 16+24*k with k>=1", size)
		return
	}
	count := (size - 16) / 24
	item := func(i int) GoodbyeItem {
		p := g + 16 + 24*i
		return GoodbyeItem{v.u64(p), v.u64(p + 8), v.u64(p + 16)}
	}
	// tail
	tail := item(count - 1)
	if tail.Hash != GoodbyeTailMarker {
		v.soft("goodbye-tail-marker", g, path, "last item hash %#x is not the tail marker", tail.Hash)
	}
	if tail.Offset != uint64(g-entryStart) {
		v.soft("goodbye-tail-offset", g, path, "tail offset %d, distance to the directory's ENTRY is %d", tail.Offset, g-entryStart)
	}
	if tail.Size != uint64(size) {
		v.soft("goodbye-tail-size", g, path, "tail size %d, GOODBYE element size is %d", tail.Size, size)
	}
	if count != n+1 {
		v.soft("goodbye-size", g, path, "GOODBYE has %d items for %d children (size %d, expected %d)", count, n, size, 16+24*(n+1))
		return
	}
	if n == 0 {
		return
	}
	actual := make([]GoodbyeItem, n)
	for i := range actual {
		actual[i] = item(i)
	}
	exp := make([]GoodbyeItem, n)
	dupHash := false
	hashes := map[uint64]bool{}
	for i, s := range spans {
		exp[i] = GoodbyeItem{Offset: uint64(g - s.fstart), Size: uint64(s.end - s.fstart), Hash: NameHash(s.name)}
		if hashes[exp[i].Hash] {
			dupHash = true
		}
		hashes[exp[i].Hash] = true
	}
	want := HeapFill(SortItems(exp))
	equal := true
	for i := range want {
		if want[i] != actual[i] {
			equal = false
			break
		}
	}
	if !equal {
		// which field is wrong? children in stream order have strictly decreasing offsets
		byOff := append([]GoodbyeItem(nil), actual...)
		sort.SliceStable(byOff, func(i, j int) bool { return byOff[i].Offset > byOff[j].Offset })
		var badOff, badSize, badHash bool
		first := -1
		for i := range exp {
			if byOff[i] != exp[i] && first < 0 {
				first = i
			}
			badOff = badOff || byOff[i].Offset != exp[i].Offset
			badSize = badSize || byOff[i].Size != exp[i].Size
			badHash = badHash || byOff[i].Hash != exp[i].Hash
		}
		if first >= 0 {
			d := fmt.Sprintf("child %d/%d %q: item (offset %d, size %d, hash %#x), expected (offset %d, size %d, hash %#x)",
				first, n, spans[first].name, byOff[first].Offset, byOff[first].Size, byOff[first].Hash, exp[first].Offset, exp[first].Size, exp[first].Hash)
			if badOff {
				v.soft("goodbye-item-offset", g, path, "%s", d)
			}
			if badSize {
				v.soft("goodbye-item-size", g, path, "%s", d)
			}
			if badHash {
				v.soft("goodbye-item-hash", g, path, "%s", d)
			}
		} else {
			i := 0
			for want[i] == actual[i] {
				i++
			}
			v.soft("goodbye-bst", g, path, "the %d items are the right set but slot %d holds hash %#x, the complete BST of the items sorted by (hash, offset) has %#x there",
				n, i, actual[i].Hash, want[i].Hash)
		}
	}
	// independent formulation of the purpose: a lookup by hash walking i -> 2i+1 / 2i+2 finds every child
	if !dupHash {
		for ci, e := range exp {
			j := 0
			for j < n && actual[j].Hash != e.Hash {
				if e.Hash < actual[j].Hash {
					j = 2*j + 1
				} else {
					j = 2*j + 2
				}
			}
			if j >= n {
				v.soft("goodbye-lookup", g, path, "binary search for child %d %q (hash %#x) does not find it", ci, spans[ci].name, e.Hash)
				break
			}
		}
	}
}
