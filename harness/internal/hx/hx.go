// Package hx is the small kit every property package of the harness is built on:
// one-case execution with crash journal / watchdog / panic capture, evidence
// recording (cases, distinct non-trivial cases, class histogram, samples),
// replay files, and known-finding handling.
package hx

import (
	"crypto/sha256"
	"encoding/hex"
	"encoding/json"
	"fmt"
	"os"
	"path/filepath"
	"runtime"
	"runtime/debug"
	"sort"
	"strconv"
	"strings"
	"sync"
	"testing"
	"time"

	"pgregory.net/rapid"
)

// Violation is one way in which a case broke the property. Sig is a
// machine-produced signature that identifies the failing class (used to match
// known findings); Msg is for humans.
type Violation struct {
	Sig string `json:"sig"`
	Msg string `json:"msg"`
}

// Outcome is what running one case produced.
type Outcome struct {
	Desc       any         // small descriptor of the case (shape, sizes) for evidence samples
	Key        string      // canonical identity for distinct counting; default json(Desc)
	Nontrivial bool        // case satisfied the property's non-triviality rule
	Classes    []string    // class labels for the histogram
	Violations []Violation // empty = property held
	Observed   any         // extra observations stored in the replay file
}

func (o *Outcome) Fail(sig, format string, a ...any) {
	o.Violations = append(o.Violations, Violation{Sig: sig, Msg: fmt.Sprintf(format, a...)})
}

func (o *Outcome) Class(c ...string) { o.Classes = append(o.Classes, c...) }

// Spec describes a property check.
type Spec[C any] struct {
	ID          string
	Level       string // exploration | fault_enumeration
	Rule        string
	Assumptions []string
	Required    []string // class labels that must be populated (quick exits 2 otherwise)
	Gen         func(t *rapid.T) C
	Run         func(c C) Outcome
	Journal     bool          // write the case to disk before running it (defects that kill the process)
	Watchdog    time.Duration // >0: a case that does not return in time is a violation "hang"
}

// ---------------------------------------------------------------- environment

func Tier() string {
	if v := os.Getenv("VERIF_TIER"); v == "thorough" {
		return "thorough"
	}
	return "quick"
}

func Thorough() bool { return Tier() == "thorough" }

// Pick returns q in the quick tier and th in the thorough tier.
func Pick[T any](q, th T) T {
	if Thorough() {
		return th
	}
	return q
}

func Shard() int {
	n, _ := strconv.Atoi(os.Getenv("VERIF_SHARD"))
	return n
}

func Shards() int {
	n, _ := strconv.Atoi(os.Getenv("VERIF_SHARDS"))
	if n < 1 {
		n = 1
	}
	return n
}

func Seed() int64 {
	n, err := strconv.ParseInt(os.Getenv("VERIF_SEED"), 10, 64)
	if err != nil {
		return 1
	}
	return n
}

// Root returns /verif (the directory holding known_findings.json).
func Root() string {
	if v := os.Getenv("VERIF_ROOT"); v != "" {
		return v
	}
	d, _ := os.Getwd()
	for d != "/" && d != "." {
		if _, err := os.Stat(filepath.Join(d, "known_findings.json")); err == nil {
			return d
		}
		d = filepath.Dir(d)
	}
	return "/verif"
}

// Repo returns the desync source tree under test.
func Repo() string {
	if v := os.Getenv("VERIF_REPO"); v != "" {
		return v
	}
	return "/repo"
}

// RunDir is the per-shard output directory.
func RunDir() string {
	d := os.Getenv("VERIF_RUNDIR")
	if d == "" {
		d = filepath.Join(os.TempDir(), "verif-adhoc")
	}
	d = filepath.Join(d, fmt.Sprintf("shard-%d", Shard()))
	os.MkdirAll(d, 0o755)
	return d
}

// Scratch returns a fresh scratch directory below the run dir (removed by the driver).
func Scratch(prefix string) string {
	base := filepath.Join(RunDir(), "scratch")
	os.MkdirAll(base, 0o755)
	d, err := os.MkdirTemp(base, prefix)
	if err != nil {
		panic(err)
	}
	return d
}

// ---------------------------------------------------------------- known findings

type Finding struct {
	Property  string `json:"property"`
	Status    string `json:"status"` // known | fixed
	Signature string `json:"signature"`
	What      string `json:"what"`
	Replay    string `json:"replay,omitempty"`
	Commit    string `json:"commit,omitempty"`
}

var (
	findingsOnce sync.Once
	findings     []Finding
)

func Findings() []Finding {
	findingsOnce.Do(func() {
		b, err := os.ReadFile(filepath.Join(Root(), "known_findings.json"))
		if err != nil {
			return
		}
		if err := json.Unmarshal(b, &findings); err != nil {
			panic("known_findings.json: " + err.Error())
		}
	})
	return findings
}

// knownSig reports whether sig is listed as a known (unrepaired) finding of property id.
func knownSig(id, sig string) bool {
	// development aid only (never set by registered commands): treat these signatures as
	// listed so that the search continues behind a defect that is being analysed
	if dev := os.Getenv("VERIF_DEV_IGNORE"); dev != "" {
		for _, s := range strings.Split(dev, ",") {
			if s == sig {
				return true
			}
		}
	}
	for _, f := range Findings() {
		if f.Property == id && f.Status == "known" && f.Signature == sig {
			return true
		}
	}
	return false
}

// ---------------------------------------------------------------- evidence

type sample struct {
	hash string
	desc any
}

type recorder struct {
	mu          sync.Mutex
	start       time.Time
	id, level   string
	rule        string
	assumptions []string
	required    []string
	evals       int
	nontrivial  map[string]struct{}
	classes     map[string]int
	first       []any
	best        []sample // three smallest hashes: a deterministic pseudo-random pick
	excluded    map[string]int
	violations  int
	exhaustive  map[string]bool
	notes       map[string]any
}

var rec = &recorder{
	start:      time.Now(),
	nontrivial: map[string]struct{}{},
	classes:    map[string]int{},
	excluded:   map[string]int{},
	exhaustive: map[string]bool{},
	notes:      map[string]any{},
}

func (r *recorder) bind(id, level, rule string, assumptions, required []string) {
	r.mu.Lock()
	defer r.mu.Unlock()
	r.id, r.level, r.rule = id, level, rule
	r.assumptions, r.required = assumptions, required
}

func (r *recorder) record(o *Outcome) {
	key := o.Key
	if key == "" {
		b, _ := json.Marshal(o.Desc)
		key = string(b)
	}
	sum := sha256.Sum256([]byte(key))
	h := hex.EncodeToString(sum[:8])
	r.mu.Lock()
	defer r.mu.Unlock()
	r.evals++
	for _, c := range o.Classes {
		r.classes[c]++
	}
	if !o.Nontrivial {
		return
	}
	if _, seen := r.nontrivial[h]; seen {
		return
	}
	r.nontrivial[h] = struct{}{}
	if len(r.first) < 3 {
		r.first = append(r.first, o.Desc)
		return
	}
	r.best = append(r.best, sample{h, o.Desc})
	sort.Slice(r.best, func(i, j int) bool { return r.best[i].hash < r.best[j].hash })
	if len(r.best) > 3 {
		r.best = r.best[:3]
	}
}

// Note attaches a free-form measured value to the evidence (e.g. enumeration sizes).
func Note(key string, v any) {
	rec.mu.Lock()
	defer rec.mu.Unlock()
	rec.notes[key] = v
}

// AddNote adds n to an integer note.
func AddNote(key string, n int) {
	rec.mu.Lock()
	defer rec.mu.Unlock()
	cur, _ := rec.notes[key].(int)
	rec.notes[key] = cur + n
}

// Exhaustive records that a named finite sub-space was enumerated completely.
func Exhaustive(what string) {
	rec.mu.Lock()
	defer rec.mu.Unlock()
	rec.exhaustive[what] = true
}

type shardResult struct {
	Property    string          `json:"property"`
	Level       string          `json:"level"`
	Rule        string          `json:"rule"`
	Assumptions []string        `json:"assumptions"`
	Required    []string        `json:"required"`
	Evaluations int             `json:"evaluations"`
	Nontrivial  []string        `json:"nontrivial_hashes"`
	Classes     map[string]int  `json:"classes"`
	Samples     []any           `json:"samples"`
	Excluded    map[string]int  `json:"excluded"`
	Violations  int             `json:"violations"`
	Exhaustive  map[string]bool `json:"exhaustive"`
	Notes       map[string]any  `json:"notes"`
	WallS       float64         `json:"wall_s"`
}

func (r *recorder) flush() {
	r.mu.Lock()
	defer r.mu.Unlock()
	if r.id == "" {
		return
	}
	res := shardResult{
		Property: r.id, Level: r.level, Rule: r.rule, Assumptions: r.assumptions, Required: r.required,
		Evaluations: r.evals, Classes: r.classes, Excluded: r.excluded, Violations: r.violations,
		Exhaustive: r.exhaustive, Notes: r.notes, WallS: time.Since(r.start).Seconds(),
	}
	for h := range r.nontrivial {
		res.Nontrivial = append(res.Nontrivial, h)
	}
	sort.Strings(res.Nontrivial)
	res.Samples = append(res.Samples, r.first...)
	for _, s := range r.best {
		res.Samples = append(res.Samples, s.desc)
	}
	b, _ := json.Marshal(res)
	os.WriteFile(filepath.Join(RunDir(), "result.json"), b, 0o644)
}

// Main must be called from TestMain of every property package.
func Main(m *testing.M) {
	code := m.Run()
	rec.flush()
	os.Exit(code)
}

// ---------------------------------------------------------------- one-case execution

type replayFile struct {
	Property   string          `json:"property"`
	Case       json.RawMessage `json:"case"`
	Verdict    string          `json:"verdict"`
	Violations []Violation     `json:"violations,omitempty"`
	Observed   any             `json:"observed,omitempty"`
}

func writeJSON(path string, v any) {
	b, err := json.MarshalIndent(v, "", " ")
	if err != nil {
		b = []byte(fmt.Sprintf(`{"marshal_error":%q}`, err.Error()))
	}
	os.WriteFile(path, b, 0o644)
}

func runGuarded[C any](s *Spec[C], c C) (o Outcome) {
	defer func() {
		if r := recover(); r != nil {
			o.Violations = append(o.Violations, Violation{Sig: "panic", Msg: fmt.Sprintf("panic: %v\n%s", r, debug.Stack())})
		}
	}()
	return s.Run(c)
}

// Exec runs one case: journal, watchdog, panic capture, evidence, known-finding
// filtering, replay writing. It returns the violations that are not listed as
// known findings.
func Exec[C any](s *Spec[C], c C) []Violation {
	rec.bind(s.ID, s.Level, s.Rule, s.Assumptions, s.Required)
	var raw json.RawMessage
	if s.Journal {
		raw, _ = json.Marshal(c)
		writeJSON(filepath.Join(RunDir(), "current-case.json"),
			replayFile{Property: s.ID, Case: raw, Verdict: "process died while running this case"})
	}
	var o Outcome
	if s.Watchdog > 0 {
		done := make(chan Outcome, 1)
		go func() { done <- runGuarded(s, c) }()
		select {
		case o = <-done:
		case <-time.After(s.Watchdog):
			o.Desc = "hang"
			o.Violations = append(o.Violations, Violation{Sig: "hang", Msg: fmt.Sprintf("case did not return within %s", s.Watchdog)})
			buf := make([]byte, 8<<20)
			buf = buf[:runtime.Stack(buf, true)]
			os.WriteFile(filepath.Join(RunDir(), "hang-stacks.txt"), buf, 0644)
		}
	} else {
		o = runGuarded(s, c)
	}
	var fresh []Violation
	rec.mu.Lock()
	for _, v := range o.Violations {
		if knownSig(s.ID, v.Sig) {
			rec.excluded[v.Sig]++
		} else {
			fresh = append(fresh, v)
		}
	}
	if len(fresh) > 0 {
		rec.violations++
	}
	rec.mu.Unlock()
	rec.record(&o)
	if len(fresh) > 0 {
		if raw == nil {
			raw, _ = json.Marshal(c)
		}
		writeJSON(filepath.Join(RunDir(), "replay-latest.json"),
			replayFile{Property: s.ID, Case: raw, Verdict: fresh[0].Sig, Violations: fresh, Observed: o.Observed})
	}
	if s.Journal {
		os.Remove(filepath.Join(RunDir(), "current-case.json"))
	}
	return fresh
}

func fmtViolations(vs []Violation) string {
	var sb strings.Builder
	for _, v := range vs {
		msg := v.Msg
		if len(msg) > 2000 {
			msg = msg[:2000] + "…"
		}
		fmt.Fprintf(&sb, "[%s] %s\n", v.Sig, msg)
	}
	return sb.String()
}

// Prop runs the generated search for a spec.
func Prop[C any](t *testing.T, s *Spec[C]) {
	rec.bind(s.ID, s.Level, s.Rule, s.Assumptions, s.Required)
	rapid.Check(t, func(rt *rapid.T) {
		c := s.Gen(rt)
		if vs := Exec(s, c); len(vs) > 0 {
			rt.Fatalf("property %s violated:\n%s", s.ID, fmtViolations(vs))
		}
	})
}

// Case runs one constructed case (enumerations, regression inputs) and fails the test on violation.
func Case[C any](t testing.TB, s *Spec[C], c C) bool {
	if vs := Exec(s, c); len(vs) > 0 {
		t.Errorf("property %s violated:\n%s", s.ID, fmtViolations(vs))
		return false
	}
	return true
}

// Replay re-runs the case stored in $VERIF_REPLAY, bypassing rapid.
func Replay[C any](t *testing.T, s *Spec[C]) {
	path := os.Getenv("VERIF_REPLAY")
	if path == "" {
		t.Skip("VERIF_REPLAY not set")
	}
	c, err := LoadCase[C](path)
	if err != nil {
		t.Fatalf("replay file: %v", err)
	}
	if vs := Exec(s, c); len(vs) > 0 {
		t.Fatalf("property %s violated on replay:\n%s", s.ID, fmtViolations(vs))
	}
	t.Logf("replay of %s: property held", path)
}

func LoadCase[C any](path string) (c C, err error) {
	b, err := os.ReadFile(path)
	if err != nil {
		return c, err
	}
	var rf replayFile
	if err := json.Unmarshal(b, &rf); err != nil {
		return c, err
	}
	err = json.Unmarshal(rf.Case, &c)
	return c, err
}

// Regress runs every saved case under testdata/regress (replays of repaired defects).
func Regress[C any](t *testing.T, s *Spec[C]) {
	if Shard() != 0 {
		t.Skip("shard != 0")
	}
	files, _ := filepath.Glob("testdata/regress/*.json")
	sort.Strings(files)
	for _, f := range files {
		c, err := LoadCase[C](f)
		if err != nil {
			t.Errorf("%s: %v", f, err)
			continue
		}
		if vs := Exec(s, c); len(vs) > 0 {
			t.Errorf("regression input %s: property %s violated:\n%s", f, s.ID, fmtViolations(vs))
		}
	}
	AddNote("regression_inputs", len(files))
}

// Known runs the dedicated probe of every listed known finding of this property
// and prints the KNOWN-FINDING line when it still reproduces.
func Known[C any](t *testing.T, s *Spec[C]) {
	if Shard() != 0 {
		t.Skip("shard != 0")
	}
	for _, f := range Findings() {
		if f.Property != s.ID || f.Status != "known" {
			continue
		}
		line := fmt.Sprintf("KNOWN-FINDING: property=%s %s [%s]", s.ID, f.What, f.Signature)
		if f.Replay == "" {
			fmt.Println(line)
			continue
		}
		c, err := LoadCase[C](filepath.Join(Root(), f.Replay))
		if err != nil {
			t.Errorf("known finding %s: cannot load probe %s: %v", f.Signature, f.Replay, err)
			continue
		}
		o := runGuarded(s, c)
		hit := false
		var others []Violation
		for _, v := range o.Violations {
			if v.Sig == f.Signature {
				hit = true
			} else if !knownSig(s.ID, v.Sig) {
				others = append(others, v)
			}
		}
		if hit {
			fmt.Println(line)
		} else {
			fmt.Printf("NOTE: known finding %s of %s no longer reproduces on its probe\n", f.Signature, s.ID)
		}
		if len(others) > 0 {
			t.Errorf("probe of known finding %s shows other violations:\n%s", f.Signature, fmtViolations(others))
		}
	}
}

// ---------------------------------------------------------------- helpers

// Hash8 gives a short stable hash for descriptors.
func Hash8(b []byte) string {
	s := sha256.Sum256(b)
	return hex.EncodeToString(s[:4])
}
