// C10 — Copy-on-read sparse files return the blob's bytes or an error, never stale zeros.
//
// A case is a blob description, its chunking, a store with a generated failure pattern and
// an explicit list of operations (reads on several handles, concurrent read batches, state
// saves, restarts that keep / delete / resize the cache file and keep / delete / replace the
// state file, restarts with pre-loading, store faults, reads through the go-fuse node).
// The executor and the oracle are in world_test.go, the oracle's self-test in self_test.go.
// testdata/probes/*.json are hand-minimised replay files, one per violation signature seen
// on the unrepaired tree (./check C10 --replay <file>); they are not run automatically.
package c10

import (
	"encoding/json"
	"fmt"
	"os/signal"
	"syscall"
	"testing"
	"time"

	"pgregory.net/rapid"

	"verifharness/internal/gen"
	"verifharness/internal/hx"
	"verifharness/internal/ref"
)

// Read is one ReadAt(handle, off, len); Node routes it through the mount node's Read when the
// current instance was created by NewSparseMountFS. G is the goroutine of a concurrent batch.
type Read struct {
	H    int   `json:"h"`
	Off  int64 `json:"off"`
	Len  int   `json:"len"`
	Node bool  `json:"node,omitempty"`
	G    int   `json:"g,omitempty"`
}

// Op is one step of a history.
//
//	read     R
//	conc     Reads (started together from max(G)+1 goroutines)
//	save     WriteState (Arg odd on a mount instance: SparseMountFS.Close)
//	restart  State: kept|deleted|earlier|garbage|wronglen  Cache: kept|deleted|truncated|extended
//	         Init ("" = no pre-load): saved|all|rand|same|wronglen|missing, N workers
//	fail     K>0: the next K GetChunk calls fail; K==0: every call fails until heal
//	heal     stop failing every call
//	drop/put remove / put back chunk number Chunk in the store (ChunkMissing)
//	wread    read R while the cache file cannot grow/be written at or beyond the start of chunk Chunk plus Arg bytes
//	         (RLIMIT_FSIZE lowered for the duration of the read: "disk full" for the copy-on-read write)
type Op struct {
	Kind    string `json:"op"`
	R       *Read  `json:"r,omitempty"`
	Reads   []Read `json:"reads,omitempty"`
	State   string `json:"state,omitempty"`
	Cache   string `json:"cache,omitempty"`
	Sel     int    `json:"sel,omitempty"`
	Arg     int    `json:"arg,omitempty"`
	Seed    uint64 `json:"seed,omitempty"`
	Mount   bool   `json:"mount,omitempty"`
	Handles int    `json:"handles,omitempty"`
	Init    string `json:"init,omitempty"`
	N       int    `json:"n,omitempty"`
	K       int    `json:"k,omitempty"`
	Chunk   int    `json:"chunk,omitempty"`
}

type Case struct {
	Pieces   []gen.Piece `json:"pieces"`
	Sizes    gen.Sizes   `json:"sizes"`
	Tiled    bool        `json:"tiled,omitempty"`   // one chunk per piece; otherwise the reference chunker cuts
	NoState  bool        `json:"nostate,omitempty"` // StateSaveFile is never set
	FailGets []int       `json:"failgets,omitempty"`
	// FaultKinds: what injected GetChunk failures look like; call number n uses entry n%len
	// (0 plain, 1 fmt %w io.EOF, 2 pkg/errors.Wrap(io.EOF), 3 Wrap(*url.Error{io.EOF}), 4 io.ErrUnexpectedEOF, 5 ChunkMissing, 6 ChunkInvalid)
	FaultKinds []int `json:"faultkinds,omitempty"`
	Perturb    []int `json:"perturb,omitempty"` // consumed round-robin at "sparse.fetched" and at store calls while readers run concurrently
	Start      Op    `json:"start"`
	Ops        []Op  `json:"ops"`
}

// layout expands the blob and cuts it into chunks.
func layout(c Case) (blob []byte, spans []ref.Span) {
	blob = gen.Expand(c.Pieces)
	if c.Tiled {
		var pos uint64
		for _, p := range c.Pieces {
			if p.Len <= 0 {
				continue
			}
			spans = append(spans, ref.Span{Start: pos, Len: uint64(p.Len)})
			pos += uint64(p.Len)
		}
		return blob, spans
	}
	sz := c.Sizes
	if sz.Min < ref.Window {
		sz.Min = ref.Window
	}
	if sz.Avg < sz.Min {
		sz.Avg = sz.Min
	}
	if sz.Max <= sz.Avg {
		sz.Max = sz.Avg + 1
	}
	return blob, ref.Chunk(blob, sz.Min, sz.Avg, sz.Max, false)
}

// ---------------------------------------------------------------- generator

func genTiled(t *rapid.T, c *Case) {
	mx := rapid.SampledFrom([]int{4, 8, 16, 16, 64}).Draw(t, "max")
	c.Sizes = gen.Sizes{Min: 1, Avg: uint64(mx / 2), Max: uint64(mx)}
	var nch int
	switch rapid.IntRange(0, 9).Draw(t, "countclass") {
	case 0:
		nch = rapid.SampledFrom([]int{0, 1, 1, 2}).Draw(t, "fewchunks")
	case 1, 2: // around the bitmap's byte boundaries
		nch = rapid.SampledFrom([]int{7, 8, 9, 15, 16, 17, 24, 31, 32, 33}).Draw(t, "bytechunks")
	default:
		nch = rapid.IntRange(1, hx.Pick(40, 200)).Draw(t, "nchunks")
	}
	for i := 0; i < nch; i++ {
		kind := rapid.SampledFrom([]string{"rand", "rand", "rand", "text", "text", "const", "zero", "null", "null"}).Draw(t, "ckind")
		l := rapid.IntRange(1, mx).Draw(t, "clen")
		if rapid.IntRange(0, 3).Draw(t, "full") == 0 {
			l = mx
		}
		p := gen.Piece{Kind: kind, Len: l}
		switch kind {
		case "rand", "text":
			p.Seed = rapid.Uint64().Draw(t, "seed")
		case "const":
			p.B = byte(rapid.IntRange(1, 255).Draw(t, "b"))
		case "null":
			p.Kind, p.Len = "zero", mx
		}
		c.Pieces = append(c.Pieces, p)
	}
}

func genRead(t *rapid.T, spans []ref.Span, L int64, mx int) Read {
	var off int64
	ci := -1
	switch rapid.IntRange(0, 9).Draw(t, "offclass") {
	case 0, 1, 2, 3, 4:
		if len(spans) > 0 {
			ci = rapid.IntRange(0, len(spans)-1).Draw(t, "chunk")
			off = int64(spans[ci].Start)
			if rapid.Bool().Draw(t, "atend") {
				off += int64(spans[ci].Len)
			}
			off += int64(rapid.IntRange(-2, 2).Draw(t, "d"))
		}
	case 5, 6:
		off = L + int64(rapid.IntRange(-3, 3).Draw(t, "endd"))
		if rapid.IntRange(0, 3).Draw(t, "far") == 0 {
			off = L + int64(rapid.IntRange(0, 2*mx).Draw(t, "past"))
		}
	case 7:
		off = 0
	default:
		off = int64(rapid.IntRange(0, int(L)+mx).Draw(t, "off"))
	}
	if off < 0 {
		off = 0
	}
	var l int
	switch rapid.IntRange(0, 11).Draw(t, "lenclass") {
	case 0:
		l = 0
	case 1, 2:
		l = 1
	case 3, 4:
		l = rapid.IntRange(2, 8).Draw(t, "small")
	case 5, 6:
		l = mx + rapid.IntRange(-1, 1).Draw(t, "dmx")
		if ci >= 0 {
			l = int(spans[ci].Len) + rapid.IntRange(-1, 1).Draw(t, "dcl")
		}
	case 7, 8:
		l = rapid.IntRange(1, 4*mx).Draw(t, "multi")
	case 9:
		l = int(L-off) + rapid.IntRange(-2, 2).Draw(t, "toend")
	default:
		l = rapid.IntRange(1, int(L)+8).Draw(t, "len")
	}
	if l < 0 {
		l = 0
	}
	if l == 0 && off >= L && rapid.IntRange(0, 3).Draw(t, "keep0") > 0 { // zero-length reads at/past the end stay, but rare
		l = rapid.IntRange(1, 8).Draw(t, "nz")
	}
	if l > 1<<19 {
		l = 1 << 19
	}
	return Read{H: rapid.IntRange(0, 2).Draw(t, "h"), Off: off, Len: l, Node: rapid.IntRange(0, 4).Draw(t, "node") < 2}
}

func genRestart(t *rapid.T, preload bool) Op {
	op := Op{Kind: "restart", Sel: rapid.IntRange(0, 50).Draw(t, "sel"), Arg: rapid.IntRange(0, 1<<16).Draw(t, "arg"),
		Seed: rapid.Uint64().Draw(t, "rseed"), Mount: rapid.IntRange(0, 3).Draw(t, "mount") == 0, Handles: rapid.IntRange(0, 2).Draw(t, "handles")}
	if preload {
		op.State = rapid.SampledFrom([]string{"deleted", "deleted", "kept", "garbage", "wronglen"}).Draw(t, "pstate")
		op.Cache = rapid.SampledFrom([]string{"deleted", "deleted", "truncated", "kept", "kept", "extended"}).Draw(t, "pcache")
		op.Init = rapid.SampledFrom([]string{"saved", "saved", "all", "all", "rand", "rand", "same", "wronglen", "missing"}).Draw(t, "init")
		op.N = rapid.IntRange(1, 4).Draw(t, "n")
		return op
	}
	op.State = rapid.SampledFrom([]string{"kept", "kept", "kept", "deleted", "earlier", "earlier", "earlier", "garbage", "wronglen"}).Draw(t, "state")
	op.Cache = rapid.SampledFrom([]string{"kept", "kept", "kept", "kept", "kept", "deleted", "truncated", "extended"}).Draw(t, "cache")
	return op
}

func genCase(t *rapid.T) Case {
	var c Case
	c.Tiled = rapid.IntRange(0, 9).Draw(t, "tiled") < 6
	if c.Tiled {
		genTiled(t, &c)
	} else {
		c.Sizes = gen.ChunkSizes(t, false)
		maxLen := int(c.Sizes.Max) * rapid.IntRange(1, 12).Draw(t, "mult")
		if lim := hx.Pick(96<<10, 1<<20); maxLen > lim {
			maxLen = lim
		}
		mx := int(c.Sizes.Max)
		c.Pieces = gen.Pieces(t, maxLen, int(c.Sizes.Min), mx, 2*mx, 3*mx)
	}
	blob, spans := layout(c)
	L := int64(len(blob))
	mx := int(c.Sizes.Max)
	if mx > 1<<14 {
		mx = 1 << 14
	}

	c.NoState = rapid.IntRange(0, 11).Draw(t, "nostate") == 0
	for i, n := 0, rapid.IntRange(0, 4).Draw(t, "nfail"); i < n; i++ {
		c.FailGets = append(c.FailGets, rapid.IntRange(1, 12).Draw(t, "failget"))
	}
	for i, n := 0, rapid.IntRange(0, 3).Draw(t, "nkinds"); i < n; i++ {
		c.FaultKinds = append(c.FaultKinds, rapid.SampledFrom([]int{fkPlain, fkFmtEOF, fkPkgEOF, fkURLEOF, fkURLEOF, fkUnexpEOF, fkMissing, fkInvalid}).Draw(t, "faultkind"))
	}
	for i, n := 0, rapid.IntRange(0, 8).Draw(t, "nperturb"); i < n; i++ {
		c.Perturb = append(c.Perturb, rapid.IntRange(0, 4).Draw(t, "perturb"))
	}
	c.Start = Op{Kind: "restart", State: "deleted", Cache: "deleted", Mount: rapid.IntRange(0, 3).Draw(t, "mount0") == 0,
		Handles: rapid.IntRange(0, 2).Draw(t, "handles0")}
	if rapid.IntRange(0, 9).Draw(t, "preload0") == 0 { // fresh cache file pre-loaded from a state file: the documented use
		c.Start.Init = rapid.SampledFrom([]string{"all", "rand", "rand", "missing"}).Draw(t, "init0")
		c.Start.N = rapid.IntRange(1, 4).Draw(t, "n0")
		c.Start.Seed = rapid.Uint64().Draw(t, "seed0")
	}

	// one step = one to four ops; drawn as a slice so that rapid can delete whole steps when shrinking
	var prev []Read
	step := rapid.Custom(func(t *rapid.T) []Op {
		var ops []Op
		kind := rapid.SampledFrom([]string{"read", "read", "read", "read", "read", "read", "read", "read", "read",
			"conc", "conc", "conc", "save", "save", "restart", "restart", "restart", "preload", "fail", "fail", "heal", "drop", "wread"}).Draw(t, "op")
		switch kind {
		case "read":
			var r Read
			if len(prev) > 0 && rapid.IntRange(0, 4).Draw(t, "again") == 0 {
				r = prev[rapid.IntRange(0, len(prev)-1).Draw(t, "which")]
				r.H = rapid.IntRange(0, 2).Draw(t, "h2")
			} else {
				r = genRead(t, spans, L, mx)
			}
			prev = append(prev, r)
			ops = append(ops, Op{Kind: "read", R: &r})
		case "conc":
			g := rapid.IntRange(2, 4).Draw(t, "g")
			n := rapid.IntRange(g, 8).Draw(t, "nreads")
			focus := -1
			if len(spans) > 0 {
				focus = rapid.IntRange(0, len(spans)-1).Draw(t, "focus")
			}
			op := Op{Kind: "conc"}
			for j := 0; j < n; j++ {
				var r Read
				if focus >= 0 && rapid.IntRange(0, 9).Draw(t, "onfocus") < 6 {
					s := spans[focus]
					r = Read{H: rapid.IntRange(0, 2).Draw(t, "h"), Off: int64(s.Start) + int64(rapid.IntRange(-2, int(s.Len)).Draw(t, "fd")),
						Len: rapid.IntRange(1, int(s.Len)+2).Draw(t, "fl"), Node: rapid.IntRange(0, 4).Draw(t, "node") < 2}
					if r.Off < 0 {
						r.Off = 0
					}
				} else {
					r = genRead(t, spans, L, mx)
				}
				r.G = j % g
				prev = append(prev, r)
				op.Reads = append(op.Reads, r)
			}
			ops = append(ops, op)
		case "wread":
			// the copy-on-read write of one chunk fails (at its start, one byte in, half way), the read covers it;
			// the same range is read again afterwards, with writes working
			if len(spans) == 0 {
				break
			}
			k := rapid.IntRange(0, len(spans)-1).Draw(t, "wchunk")
			s := spans[k]
			d := rapid.SampledFrom([]int{0, 0, 1, int(s.Len) / 2}).Draw(t, "wdelta")
			r := Read{H: rapid.IntRange(0, 2).Draw(t, "h"), Off: int64(s.Start) + int64(rapid.IntRange(-1, 1).Draw(t, "wd")), Len: int(s.Len) + rapid.IntRange(0, 2).Draw(t, "wl"),
				Node: rapid.IntRange(0, 4).Draw(t, "node") < 2}
			if r.Off < 0 {
				r.Off = 0
			}
			prev = append(prev, r)
			ops = append(ops, Op{Kind: "wread", R: &r, Chunk: k, Arg: d})
			r2 := r
			r2.H = rapid.IntRange(0, 2).Draw(t, "h2")
			ops = append(ops, Op{Kind: "read", R: &r2})
		case "save":
			ops = append(ops, Op{Kind: "save", Arg: rapid.IntRange(0, 1).Draw(t, "close")})
		case "restart":
			op := genRestart(t, false)
			switch rapid.IntRange(0, 7).Draw(t, "scenario") {
			case 0, 1, 2: // orderly shutdown: save, then reuse both files
				ops = append(ops, Op{Kind: "save", Arg: rapid.IntRange(0, 1).Draw(t, "close")})
				op.State, op.Cache = "kept", "kept"
			case 3: // cache file lost or cut between runs, the next run dies without saving, third run reuses what is there
				op.State = "kept"
				op.Cache = rapid.SampledFrom([]string{"deleted", "truncated"}).Draw(t, "lost")
				if rapid.Bool().Draw(t, "refill") { // ... and that run re-fills the new cache file from a state file while the store misbehaves
					op.Init = rapid.SampledFrom([]string{"same", "same", "saved", "all"}).Draw(t, "refillfrom")
					op.N = rapid.IntRange(1, 4).Draw(t, "refilln")
					if rapid.Bool().Draw(t, "refillfault") {
						ops = append(ops, Op{Kind: "fail", K: rapid.SampledFrom([]int{1, 2, 3, 0}).Draw(t, "refillk")})
					}
				}
				ops = append(ops, op)
				for k, n := 0, rapid.IntRange(0, 2).Draw(t, "between"); k < n; k++ {
					r := genRead(t, spans, L, mx)
					prev = append(prev, r)
					ops = append(ops, Op{Kind: "read", R: &r})
				}
				op = genRestart(t, false)
				op.State, op.Cache = "kept", "kept"
			}
			ops = append(ops, op)
		case "preload":
			ops = append(ops, genRestart(t, true))
		case "fail":
			ops = append(ops, Op{Kind: "fail", K: rapid.SampledFrom([]int{1, 1, 1, 2, 3, 0}).Draw(t, "k")})
		case "heal":
			ops = append(ops, Op{Kind: "heal"})
		case "drop":
			k := "drop"
			if rapid.Bool().Draw(t, "put") {
				k = "put"
			}
			ops = append(ops, Op{Kind: k, Chunk: rapid.IntRange(0, 1<<10).Draw(t, "dchunk")})
		}
		return ops
	})
	// rapid favours short slices; a drawn lower bound keeps histories long (it shrinks to 1 first)
	minSteps := rapid.IntRange(1, hx.Pick(16, 40)).Draw(t, "minsteps")
	for _, ops := range rapid.SliceOfN(step, minSteps, hx.Pick(24, 60)).Draw(t, "ops") {
		c.Ops = append(c.Ops, ops...)
	}
	return c
}

// ---------------------------------------------------------------- spec

func run(c Case) (o hx.Outcome) {
	w := newWorld(c, &o)
	defer w.cleanup()
	w.restart(c.Start)
	for _, op := range c.Ops {
		w.apply(op)
	}
	w.teardown()
	w.finish()
	return o
}

var spec = &hx.Spec[Case]{
	ID:    "C10",
	Level: "exploration",
	Rule: "cases = (blob incl. null chunks/empty/one chunk, chunking by reference chunker or arbitrary tiling, store with generated transient GetChunk failures of generated error kinds and missing chunks, " +
		"history of ReadAt on several handles incl. zero-length and at/past-the-end reads, concurrent read batches with perturbation at sparse.fetched, WriteState, " +
		"restarts with state file kept/deleted/earlier save/garbage/wrong length x cache file kept/deleted/truncated/extended, restarts with pre-load n=1..4, reads through the go-fuse node, reads during which the cache file cannot be written at/behind a chosen chunk (RLIMIT_FSIZE lowered around the read) followed by the same read with writes working); " +
		"non-trivial = some read touched a chunk whose earlier fetch failed, or ran concurrently with another read of the same not-yet-loaded chunk, or followed a restart that " +
		"found a matching non-empty saved state; distinct by the full case (history included)",
	Assumptions: []string{
		"oracle: direct comparison with the generated blob; chunk IDs by crypto/sha512 directly",
		"store = in-memory fake with injected failures (error returns of seven kinds: plain, three that wrap io.EOF incl. the HTTP store's dropped-connection error, io.ErrUnexpectedEOF, ChunkMissing, ChunkInvalid; and chunks really missing); it never returns wrong data and never a bare io.EOF",
		"cache files handed to a restart were always produced by an earlier instance for the same index (then kept, deleted, truncated or extended); state files restored from an earlier save belong to the same cache file generation; state files of the right length with arbitrary bits are not generated as save-state (only as init-state for pre-loading)",
		"the go-fuse node is driven in-process (fs.NewNodeFS + node Open/Read), no kernel mount",
		"scheduling is perturbed (yields/sleeps drawn from the case), not enumerated; verdicts never depend on timing",
		"before a restart the harness waits for the pre-loader of the old instance (reads of every marked chunk, then a bounded wait for null chunks)",
	},
	Required: []string{"blob:empty", "blob:one-chunk", "blob:null-chunk", "read:len0", "read:at-end", "read:past-end", "read:clipped", "read:multi-chunk",
		"read:error", "read:after-failed-fetch", "read:after-failed-fetch-nonzero", "read:node", "conc", "conc:same-chunk", "save",
		"restart:state=kept", "restart:state=deleted", "restart:state=earlier", "restart:state=garbage", "restart:state=wronglen",
		"restart:cache=kept", "restart:cache=deleted", "restart:cache=truncated", "restart:cache=extended",
		"restart:state-matches-nonempty", "read:after-restart-with-state", "preload", "preload:marked>0", "preload:fault-delivered", "mount", "fault-delivered", "chunk-missing",
		"fault-kind:plain", "fault-kind:wraps-EOF", "fault-kind:fmt-wraps-EOF", "fault-kind:pkg-wraps-EOF", "fault-kind:url-wraps-EOF",
		"fault-kind:unexpected-EOF", "fault-kind:chunk-missing", "fault-kind:chunk-invalid", "wread", "wread:fetched-under-limit", "wread:error",
		"node-read:fetch-failed:wraps-EOF", "node-read:fetch-failed:plain", "node-read:fetch-failed:reported",
		"handle-read:fetch-failed:wraps-EOF", "handle-read:fetch-failed:plain"},
	Gen:      genCase,
	Run:      run,
	Journal:  true,
	Watchdog: 60 * time.Second,
}

func TestMain(m *testing.M) {
	signal.Ignore(syscall.SIGXFSZ) // a write beyond RLIMIT_FSIZE returns EFBIG instead of ending the process (op wread)
	hx.Main(m)
}

func TestRegress(t *testing.T) { hx.Regress(t, spec) }
func TestKnown(t *testing.T)   { hx.Known(t, spec) }
func TestReplay(t *testing.T)  { hx.Replay(t, spec) }

// enumIndex is a 5-chunk tiling with max=4: rand(3) null(4) text(2) zero(3, not null) const(4); length 16.
func enumPieces() []gen.Piece {
	return []gen.Piece{{Kind: "rand", Len: 3, Seed: 7}, {Kind: "zero", Len: 4}, {Kind: "text", Len: 2, Seed: 9},
		{Kind: "zero", Len: 3}, {Kind: "const", Len: 4, B: 0x5a}}
}

// TestEnum: on a fixed 5-chunk index every (offset, length) with offset in 0..L+2 and length
// in 0..L+2, under three fault patterns (none, first GetChunk fails, every GetChunk fails
// until healed); each read is issued twice, heal in between, then once more after a
// save + restart.
func TestEnum(t *testing.T) {
	if hx.Shard() != 0 {
		t.Skip()
	}
	const L = 16
	n := 0
	for pat := 0; pat < 3; pat++ {
		for off := 0; off <= L+2; off++ {
			for l := 0; l <= L+2; l++ {
				c := Case{Pieces: enumPieces(), Sizes: gen.Sizes{Min: 1, Avg: 2, Max: 4}, Tiled: true,
					Start: Op{Kind: "restart", State: "deleted", Cache: "deleted", Mount: (off+l)%4 == 0}}
				r := Read{Off: int64(off), Len: l, Node: l%3 == 1}
				r2 := r
				r2.H = 1
				switch pat {
				case 1:
					c.FailGets = []int{1}
				case 2:
					c.Ops = append(c.Ops, Op{Kind: "fail", K: 0})
				}
				c.Ops = append(c.Ops, Op{Kind: "read", R: &r}, Op{Kind: "heal"}, Op{Kind: "read", R: &r2}, Op{Kind: "save"},
					Op{Kind: "restart", State: "kept", Cache: "kept", Handles: 1}, Op{Kind: "read", R: &r})
				n++
				if !hx.Case(t, spec, c) {
					return
				}
			}
		}
	}
	// every fault kind x {handle ReadAt, node Read} x {first, middle, last chunk} x {range inside the
	// chunk, whole chunk, range running past the chunk / the end}: failing read, then the same read again
	spans := []struct{ off, l int }{{0, 3}, {7, 2}, {12, 4}} // chunks 0, 2 and 4 of the enumeration index
	for k := 0; k < fkCount; k++ {
		for _, node := range []bool{false, true} {
			for _, sp := range spans {
				for _, r := range []Read{{Off: int64(sp.off), Len: sp.l}, {Off: int64(sp.off + 1), Len: 1}, {Off: int64(sp.off + sp.l - 1), Len: 6}} {
					r.Node = node
					r2 := r
					c := Case{Pieces: enumPieces(), Sizes: gen.Sizes{Min: 1, Avg: 2, Max: 4}, Tiled: true, FailGets: []int{1}, FaultKinds: []int{k},
						Start: Op{Kind: "restart", State: "deleted", Cache: "deleted", Mount: true},
						Ops:   []Op{{Kind: "read", R: &r}, {Kind: "read", R: &r2}}}
					n++
					if !hx.Case(t, spec, c) {
						return
					}
				}
			}
		}
	}
	hx.Exhaustive("every injected error kind (7) x {SparseFileHandle.ReadAt, mount node Read} x {first, middle, last chunk} x {whole chunk, inside, running past its end}: failing read, then re-read")
	hx.Note("enum_cases", n)
	hx.Exhaustive(fmt.Sprintf("every (offset 0..%d, length 0..%d) read x {no fault, first fetch fails, all fetches fail until healed} on a 5-chunk index: read, heal, re-read, save, restart, read", L+2, L+2))
}

func TestProp(t *testing.T) { hx.Prop(t, spec) }

func caseKey(c Case) string {
	b, _ := json.Marshal(c)
	return string(b)
}
