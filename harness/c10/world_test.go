package c10

import (
	"bytes"
	"context"
	"errors"
	"fmt"
	"golang.org/x/sys/unix"
	"io"
	"net/url"
	"os"
	"path/filepath"
	"runtime"
	"runtime/debug"
	"sort"
	"sync"
	"sync/atomic"
	"syscall"
	"time"

	"github.com/folbricht/desync"
	"github.com/hanwen/go-fuse/v2/fs"
	"github.com/hanwen/go-fuse/v2/fuse"
	pkgerrors "github.com/pkg/errors"

	"verifharness/internal/dx"
	"verifharness/internal/gen"
	"verifharness/internal/hx"
	"verifharness/internal/ref"
	"verifharness/internal/sched"
)

// ---------------------------------------------------------------- fault error kinds

// Fault kinds: what an injected GetChunk failure looks like to the code under test.
const (
	fkPlain    = iota // an error that wraps nothing special
	fkFmtEOF          // fmt.Errorf("...: %w", io.EOF)
	fkPkgEOF          // pkg/errors.Wrap(io.EOF, ...)
	fkURLEOF          // pkg/errors.Wrap(&url.Error{Err: io.EOF}, url): what RemoteHTTP returns when the server drops the connection
	fkUnexpEOF        // io.ErrUnexpectedEOF
	fkMissing         // desync.ChunkMissing
	fkInvalid         // desync.ChunkInvalid
	fkCount
)

func faultErr(k int, store string, n int) error {
	if k < 0 {
		k = -k
	}
	switch k % fkCount {
	case fkFmtEOF:
		return fmt.Errorf("Get \"http://store.example/chunk\": %w", io.EOF)
	case fkPkgEOF:
		return pkgerrors.Wrap(io.EOF, "store")
	case fkURLEOF:
		u := "http://store.example/0000/chunk.cacnk"
		return pkgerrors.Wrap(&url.Error{Op: "Get", URL: u, Err: io.EOF}, u)
	case fkUnexpEOF:
		return io.ErrUnexpectedEOF
	case fkMissing:
		return desync.ChunkMissing{}
	case fkInvalid:
		return desync.ChunkInvalid{}
	}
	return fmt.Errorf("%s get %d: %w", store, n, dx.ErrInjected)
}

// errLabel classifies a store error by looking at it the way a caller could.
func errLabel(err error) string {
	var cm desync.ChunkMissing
	var ci desync.ChunkInvalid
	var ue *url.Error
	switch {
	case errors.As(err, &cm):
		return "chunk-missing"
	case errors.As(err, &ci):
		return "chunk-invalid"
	case errors.Is(err, io.ErrUnexpectedEOF):
		return "unexpected-EOF"
	case err == io.EOF:
		return "bare-EOF"
	case errors.Is(err, io.EOF) && errors.As(err, &ue):
		return "url-wraps-EOF"
	case errors.Is(err, io.EOF):
		if _, ok := err.(interface{ Cause() error }); ok {
			return "pkg-wraps-EOF"
		}
		return "fmt-wraps-EOF"
	}
	return "plain"
}

func wrapsEOF(label string) bool {
	return label == "url-wraps-EOF" || label == "pkg-wraps-EOF" || label == "fmt-wraps-EOF"
}

type failRec struct {
	id    desync.ChunkID
	label string
}

// ---------------------------------------------------------------- store wrapper

// trackStore counts what the oracle and the quiescence wait need: fetches in flight,
// successful fetches, failed fetches per chunk ID (reset for every instance).
type trackStore struct {
	*dx.MemStore
	w *world

	mu          sync.Mutex
	inflight    int
	okGets      int
	hooks       int // calls of the "sparse.fetched" hook
	total       int
	failedTotal int
	started     map[desync.ChunkID]int // GetChunk calls per ID since the instance started
	failed      map[desync.ChunkID]int // failed GetChunk calls per ID since the instance started
	faillog     []failRec              // every failed GetChunk of the case, in order
	epoch       int                    // bumped when an instance is retired
	strayFails  int                    // failures delivered to a retired instance
}

// instStore is what one instance gets as its store: calls made through the view of a retired
// instance (none are expected once quiesce has returned) never count as "a fetch failed in
// this instance".
type instStore struct {
	*trackStore
	epoch int
}

func (v instStore) GetChunk(id desync.ChunkID) (*desync.Chunk, error) {
	return v.trackStore.get(id, v.epoch)
}

func (s *trackStore) GetChunk(id desync.ChunkID) (*desync.Chunk, error) {
	return s.get(id, s.currentEpoch())
}

func (s *trackStore) currentEpoch() int {
	s.mu.Lock()
	defer s.mu.Unlock()
	return s.epoch
}

// retire ends the current instance's epoch.
func (s *trackStore) retire() {
	s.mu.Lock()
	s.epoch++
	s.mu.Unlock()
}

func (s *trackStore) get(id desync.ChunkID, epoch int) (*desync.Chunk, error) {
	s.mu.Lock()
	s.inflight++
	s.total++
	s.started[id]++
	s.mu.Unlock()
	s.w.perturb()
	c, err := s.MemStore.GetChunk(id)
	s.mu.Lock()
	s.inflight--
	if err == nil {
		s.okGets++
	} else if epoch == s.epoch {
		s.failed[id]++
		s.failedTotal++
		s.faillog = append(s.faillog, failRec{id, errLabel(err)})
	} else {
		s.strayFails++
	}
	s.mu.Unlock()
	return c, err
}

func (s *trackStore) failMark() int {
	s.mu.Lock()
	defer s.mu.Unlock()
	return len(s.faillog)
}

func (s *trackStore) failsSince(mark int) []failRec {
	s.mu.Lock()
	defer s.mu.Unlock()
	return append([]failRec(nil), s.faillog[mark:]...)
}

func (s *trackStore) counts() (total, failed int) {
	s.mu.Lock()
	defer s.mu.Unlock()
	return s.total, s.failedTotal
}

func (s *trackStore) newInstance() {
	s.mu.Lock()
	s.started = map[desync.ChunkID]int{}
	s.failed = map[desync.ChunkID]int{}
	s.mu.Unlock()
}

func (s *trackStore) failedSnapshot() map[desync.ChunkID]int {
	s.mu.Lock()
	defer s.mu.Unlock()
	m := make(map[desync.ChunkID]int, len(s.failed))
	for k, v := range s.failed {
		m[k] = v
	}
	return m
}

// ---------------------------------------------------------------- world

type save struct {
	data    []byte
	lineage int
}

type world struct {
	c Case
	o *hx.Outcome

	blob    []byte
	spans   []ref.Span
	idx     desync.Index
	L       int64
	nch     int
	expLen  int // length of a state file for this index
	isNull  []bool
	nullCnt int
	store   *trackStore

	dir, cache, state, init string
	saves                   []save
	lineage                 int // generation of the cache file's content (bumped when the harness deletes or truncates it)

	// current instance
	alive        bool // NewSparseFile succeeded and no read panicked
	sf           *desync.SparseFile
	mnt          *desync.SparseMountFS
	opener       fs.NodeOpener
	reader       fs.NodeReader
	handles      []*desync.SparseFileHandle
	staleBits    map[int]bool // chunks the state file found at restart marks present although the cache file does not hold them
	withState    bool         // restart found a state file of the right length with >= 1 bit and a cache file of the right size
	marked       []int        // chunks marked in the init state of a pre-load
	preGets      int          // store.total when the instance started
	preFailed    int          // store.failedTotal when the instance started
	base         int          // runtime.NumGoroutine() before the first instance was created
	baseSet      bool
	aborted      bool // an old instance's loaders did not end: no further ops, no further verdicts
	lostToPanic  bool
	preEffective bool // the instance was started with an init state that marks >= 1 chunk and no matching save-state

	hot atomic.Bool // concurrent activity: perturbation enabled
	pi  atomic.Int64

	sigs    map[string]int
	classes map[string]bool
	trace   []string
	stats   map[string]int

	ntAfterFail, ntConc, ntAfterState bool
}

const traceMax = 120

func newWorld(c Case, o *hx.Outcome) *world {
	w := &world{c: c, o: o, sigs: map[string]int{}, classes: map[string]bool{}, stats: map[string]int{}}
	w.blob, w.spans = layout(c)
	w.idx = dx.BuildIndex(w.blob, w.spans, c.Sizes, false)
	w.L = int64(len(w.blob))
	w.nch = len(w.spans)
	w.expLen = (w.nch + 7) / 8
	nullID := desync.ChunkID(ref.ID(make([]byte, c.Sizes.Max), false))
	w.isNull = make([]bool, w.nch)
	for i, ch := range w.idx.Chunks {
		if ch.ID == nullID {
			w.isNull[i] = true
			w.nullCnt++
		}
	}
	ms := dx.NewMemStore("c10")
	dx.FillStore(ms, w.blob, w.idx)
	for _, n := range c.FailGets {
		if n >= 1 {
			ms.FailAt("get", n)
		}
	}
	if kinds := c.FaultKinds; len(kinds) > 0 {
		ms.FaultErr = func(kind string, n int) error { return faultErr(kinds[n%len(kinds)], ms.Name, n) }
	}
	w.store = &trackStore{MemStore: ms, w: w, started: map[desync.ChunkID]int{}, failed: map[desync.ChunkID]int{}}
	w.dir = hx.Scratch("c10")
	w.cache = filepath.Join(w.dir, "cache")
	w.state = filepath.Join(w.dir, "state")
	w.init = filepath.Join(w.dir, "init")
	desync.VerifHook = func(site string) {
		if site != "sparse.fetched" {
			return
		}
		w.store.mu.Lock()
		w.store.hooks++
		w.store.mu.Unlock()
		w.perturb()
	}
	return w
}

func (w *world) cleanup() {
	desync.VerifHook = nil
	os.RemoveAll(w.dir)
}

func (w *world) class(c string) { w.classes[c] = true }

func (w *world) fail(sig, format string, a ...any) {
	w.sigs[sig]++
	if w.sigs[sig] == 1 {
		w.o.Fail(sig, format, a...)
	}
}

func (w *world) tracef(format string, a ...any) {
	if len(w.trace) < traceMax {
		w.trace = append(w.trace, fmt.Sprintf(format, a...))
	}
}

// perturb is called from goroutines of desync and of the harness.
func (w *world) perturb() {
	if !w.hot.Load() || len(w.c.Perturb) == 0 {
		return
	}
	i := int(w.pi.Add(1)) % len(w.c.Perturb)
	switch w.c.Perturb[i] {
	case 1:
		runtime.Gosched()
	case 2:
		for k := 0; k < 10; k++ {
			runtime.Gosched()
		}
	case 3:
		time.Sleep(100 * time.Microsecond)
	case 4:
		time.Sleep(time.Millisecond)
	}
}

// chunkAt returns the chunk holding byte off (nch when off >= L).
func (w *world) chunkAt(off int64) int {
	return sort.Search(w.nch, func(i int) bool { return off < int64(w.spans[i].Start+w.spans[i].Len) })
}

func bit(b []byte, i int) bool { return i/8 < len(b) && b[i/8]&(1<<uint(i%8)) != 0 }

func allZero(b []byte) bool {
	for _, x := range b {
		if x != 0 {
			return false
		}
	}
	return true
}

// ---------------------------------------------------------------- reads and the oracle

type result struct {
	node     bool
	n        int
	err      error
	errno    syscall.Errno
	got      []byte
	panicked string
	skipped  bool
}

func (r result) String() string {
	switch {
	case r.skipped:
		return "skipped"
	case r.panicked != "":
		return "PANIC " + firstLine(r.panicked)
	case r.node:
		return fmt.Sprintf("n=%d errno=%d", r.n, int(r.errno))
	default:
		return fmt.Sprintf("n=%d err=%v", r.n, r.err)
	}
}

func firstLine(s string) string {
	for i := 0; i < len(s); i++ {
		if s[i] == '\n' {
			return s[:i]
		}
	}
	return s
}

func (w *world) doRead(rd Read) (res result) {
	h := w.handles[rd.H%len(w.handles)]
	buf := make([]byte, rd.Len)
	for i := range buf {
		buf[i] = 0xA5 // bytes a reader claims but never wrote are not mistaken for hole zeros
	}
	defer func() {
		if r := recover(); r != nil {
			res.panicked = fmt.Sprintf("%v\n%s", r, debug.Stack())
		}
	}()
	if rd.Node && w.reader != nil {
		res.node = true
		rr, errno := w.reader.Read(context.Background(), h, buf, rd.Off)
		res.errno = errno
		if errno == 0 && rr != nil {
			b, st := rr.Bytes(buf)
			if st != fuse.OK {
				res.errno = syscall.Errno(st)
			}
			res.got, res.n = b, len(b)
			rr.Done()
		}
		return res
	}
	n, err := h.ReadAt(buf, rd.Off)
	res.n, res.err = n, err
	if n >= 0 && n <= len(buf) {
		res.got = buf[:n]
	}
	return res
}

// judge applies the read oracle. before/after are the failed-fetch counts per chunk ID of
// this instance taken before the read (batch) started and after it returned; during lists
// the fetches that failed while a sequential read ran (nil for reads of a concurrent batch).
func (w *world) judge(tag string, rd Read, res result, before, after map[desync.ChunkID]int, during []failRec) {
	if res.skipped {
		return
	}
	L := w.L
	lo, hi := rd.Off, rd.Off+int64(rd.Len)
	if lo > L {
		lo = L
	}
	if hi > L {
		hi = L
	}
	want := w.blob[lo:hi]
	clipped := rd.Len > 0 && rd.Off+int64(rd.Len) > L
	w.tracef("%s h%d off=%d len=%d node=%v -> %s", tag, rd.H, rd.Off, rd.Len, rd.Node, res)

	switch {
	case rd.Len == 0:
		w.class("read:len0")
	case rd.Off == L:
		w.class("read:at-end")
	case rd.Off > L:
		w.class("read:past-end")
	case clipped:
		w.class("read:clipped")
	}
	if res.node {
		w.class("read:node")
	}
	first, last := w.chunkAt(lo), w.chunkAt(hi-1)
	if hi > lo && last > first {
		w.class("read:multi-chunk")
	}

	if res.panicked != "" {
		sig := "C10:read:panic"
		switch {
		case w.nch == 0:
			sig = "C10:read:panic-empty-index"
		case rd.Len == 0 && rd.Off >= L:
			sig = "C10:read:panic-zero-length-at-end"
		}
		w.fail(sig, "%s ReadAt(off=%d, len=%d) on an index of %d chunks / %d bytes panicked: %s", tag, rd.Off, rd.Len, w.nch, L, clip(res.panicked, 1500))
		w.alive = false // the panic leaves the loader's RWMutex read-locked: the instance is unusable
		w.lostToPanic = true
		w.class("instance-lost-to-panic")
		return
	}

	// which chunks does the range touch, and did a fetch of one of them fail before?
	if hi > lo {
		for i := first; i <= last && i < w.nch; i++ {
			if w.isNull[i] {
				continue
			}
			if before[w.idx.Chunks[i].ID] > 0 {
				w.class("read:after-failed-fetch")
				w.ntAfterFail = true
				a, b := max(lo, int64(w.spans[i].Start)), min(hi, int64(w.spans[i].Start+w.spans[i].Len))
				if !allZero(w.blob[a:b]) {
					w.class("read:after-failed-fetch-nonzero")
				}
			}
		}
		if w.withState {
			w.class("read:after-restart-with-state")
			w.ntAfterState = true
		}
	}

	isErr := res.err != nil && res.err != io.EOF
	if res.node {
		isErr = res.errno != 0
	}
	// fetches of chunks in the range that failed while this read ran, by error kind
	var failedNow []string
	if hi > lo {
		via := "handle-read"
		if res.node {
			via = "node-read"
		}
		for _, f := range during {
			for i := first; i <= last && i < w.nch; i++ {
				if w.idx.Chunks[i].ID != f.id || w.isNull[i] {
					continue
				}
				failedNow = append(failedNow, f.label)
				w.class(via + ":fetch-failed:" + f.label)
				if wrapsEOF(f.label) {
					w.class(via + ":fetch-failed:wraps-EOF")
				}
				if isErr {
					w.class(via + ":fetch-failed:reported")
				}
				break
			}
		}
		if len(during) == 0 { // concurrent batch: only the counts are known
			for i := first; i <= last && i < w.nch; i++ {
				if id := w.idx.Chunks[i].ID; !w.isNull[i] && after[id] > before[id] {
					failedNow = append(failedNow, "during-batch")
					break
				}
			}
		}
	}
	if isErr {
		w.class("read:error")
		return
	}
	w.class("read:ok")
	kind := "read"
	if res.node {
		kind = "node"
	}
	switch {
	case res.n < len(want) && len(failedNow) > 0:
		// the range lies inside the blob, a fetch for it failed, and the answer is a short
		// success: the caller (for the node: the kernel, which zero-fills the page) takes it
		// for the end of the file
		w.fail("C10:"+kind+":fetch-failure-answered-short-ok", "%s off=%d len=%d on %d bytes: a fetch for this range failed (%v) but the read was answered %s; the range holds %d bytes inside the blob",
			tag, rd.Off, rd.Len, L, failedNow, res, len(want))
	case res.n != len(want):
		w.fail("C10:"+kind+":wrong-count", "%s off=%d len=%d on %d bytes: returned n=%d (%s), the range holds %d bytes", tag, rd.Off, rd.Len, L, res.n, res, len(want))
	}
	if !res.node && clipped && res.err != io.EOF {
		w.fail("C10:read:clipped-without-eof", "%s off=%d len=%d on %d bytes: range is clipped at the end but err=%v", tag, rd.Off, rd.Len, L, res.err)
	}
	m := min(res.n, len(want), len(res.got))
	if m <= 0 || bytes.Equal(res.got[:m], want[:m]) {
		return
	}
	for i := first; i < w.nch && int64(w.spans[i].Start) < lo+int64(m); i++ {
		a, b := max(lo, int64(w.spans[i].Start)), min(lo+int64(m), int64(w.spans[i].Start+w.spans[i].Len))
		g := res.got[a-lo : b-lo]
		if bytes.Equal(g, w.blob[a:b]) {
			continue
		}
		id := w.idx.Chunks[i].ID
		// "zeros": every byte that differs from the blob is a zero (an unpopulated hole; parts of
		// the chunk may be right when an older cache file already held them)
		zeros := true
		for j := range g {
			if g[j] != w.blob[a+int64(j)] && g[j] != 0 {
				zeros = false
				break
			}
		}
		var sig, why string
		switch {
		case w.staleBits[i]:
			sig, why = "C10:restart:state-bit-without-data", "the state file accepted at restart marks this chunk as present but the cache file does not hold it"
		case zeros && before[id] > 0:
			sig, why = "C10:read:stale-zeros-after-error", "an earlier fetch of this chunk failed; this read returned the unpopulated zeros of the cache file with a nil/EOF error"
		case zeros && after[id] > 0:
			sig, why = "C10:read:zeros-fetch-failed-during-read", "a fetch of this chunk (by this read or by a concurrent one) failed while this read was running; the read returned the unpopulated zeros with a nil/EOF error"
		case zeros:
			sig, why = "C10:read:zeros-unpopulated", "zeros of an unpopulated range returned although no fetch of this chunk failed in this instance"
		default:
			sig, why = "C10:read:wrong-bytes", "bytes differ from the blob"
		}
		w.fail(sig, "%s off=%d len=%d (%s): chunk %d [%d,+%d) bytes [%d,%d) differ from the blob: %s", tag, rd.Off, rd.Len, res, i,
			w.spans[i].Start, w.spans[i].Len, a, b, why)
	}
}

func clip(s string, n int) string {
	if len(s) > n {
		return s[:n] + "…"
	}
	return s
}

func (w *world) read(tag string, rd Read) {
	if !w.alive {
		w.stats["skipped-dead"]++
		return
	}
	before := w.store.failedSnapshot()
	mark := w.store.failMark()
	res := w.doRead(rd)
	w.judge(tag, rd, res, before, w.store.failedSnapshot(), w.store.failsSince(mark))
	w.stats["reads"]++
}

// wread: one read while no file of this process can be written at or beyond a limit inside the
// cache file (start of chunk op.Chunk plus op.Arg bytes). The copy-on-read write of that chunk
// fails or is cut short; the read has to fail or return the blob's bytes like any other, and so
// have the reads that follow. The limit is lifted before anything else happens.
func (w *world) wread(op Op) {
	if !w.alive || w.nch == 0 {
		return
	}
	k := op.Chunk % w.nch
	if k < 0 {
		k = -k
	}
	d := op.Arg
	if d < 0 || uint64(d) >= w.spans[k].Len {
		d = 0
	}
	limit := w.spans[k].Start + uint64(d)
	var old syscall.Rlimit
	if err := syscall.Getrlimit(unix.RLIMIT_FSIZE, &old); err != nil {
		panic(err)
	}
	lim := old
	lim.Cur = limit
	if err := syscall.Setrlimit(unix.RLIMIT_FSIZE, &lim); err != nil {
		panic(err)
	}
	gets, _ := w.store.counts()
	rd := sanitize(*op.R)
	before := w.store.failedSnapshot()
	mark := w.store.failMark()
	res := w.doRead(rd)
	if err := syscall.Setrlimit(unix.RLIMIT_FSIZE, &old); err != nil {
		panic(err)
	}
	w.class("wread")
	if g, _ := w.store.counts(); g > gets {
		w.class("wread:fetched-under-limit")
	}
	if (res.err != nil && res.err != io.EOF) || res.errno != 0 {
		w.class("wread:error")
	}
	w.tracef("wread limit=%d (chunk %d + %d)", limit, k, d)
	w.judge("wread", rd, res, before, w.store.failedSnapshot(), w.store.failsSince(mark))
	w.stats["reads"]++
}

func sanitize(rd Read) Read {
	if rd.Off < 0 {
		rd.Off = 0
	}
	if rd.Len < 0 {
		rd.Len = 0
	}
	if rd.Len > 1<<20 {
		rd.Len = 1 << 20
	}
	if rd.H < 0 {
		rd.H = -rd.H
	}
	return rd
}

func (w *world) conc(op Op) {
	if !w.alive {
		w.stats["skipped-dead"]++
		return
	}
	var reads []Read
	for _, r := range op.Reads {
		r = sanitize(r)
		// reads that are known to panic on the unrepaired tree leave a lock behind that would
		// block the rest of the batch: they run alone, before the batch
		if w.nch == 0 || (r.Len == 0 && r.Off >= w.L) {
			w.read("conc-seq", r)
			if !w.alive {
				return
			}
			continue
		}
		if r.G < 0 {
			r.G = -r.G
		}
		r.G %= 8
		reads = append(reads, r)
	}
	if len(reads) == 0 {
		return
	}
	groups := map[int][]int{}
	for i, r := range reads {
		groups[r.G] = append(groups[r.G], i)
	}
	w.class("conc")
	// same not-yet-served chunk read from two goroutines?
	seen := map[int]int{}
	for i, r := range reads {
		lo, hi := min(r.Off, w.L), min(r.Off+int64(r.Len), w.L)
		for ci := w.chunkAt(lo); hi > lo && ci < w.nch && int64(w.spans[ci].Start) < hi; ci++ {
			if w.isNull[ci] {
				continue
			}
			if g, ok := seen[ci]; ok && g != r.G {
				w.class("conc:same-chunk")
				w.ntConc = true
			} else if !ok {
				seen[ci] = r.G
			}
		}
		_ = i
	}
	before := w.store.failedSnapshot()
	results := make([]result, len(reads))
	for i := range results {
		results[i].skipped = true
	}
	start := make(chan struct{})
	var wg sync.WaitGroup
	wasHot := w.hot.Swap(true)
	for _, idxs := range groups {
		wg.Add(1)
		go func(idxs []int) {
			defer wg.Done()
			<-start
			for _, i := range idxs {
				results[i] = w.doRead(reads[i])
				if results[i].panicked != "" {
					return
				}
				w.perturb()
			}
		}(idxs)
	}
	close(start)
	wg.Wait()
	w.hot.Store(wasHot)
	after := w.store.failedSnapshot()
	for i := range reads {
		w.judge(fmt.Sprintf("conc[g%d]", reads[i].G), reads[i], results[i], before, after, nil)
	}
	w.stats["conc-reads"] += len(reads)
}

// ---------------------------------------------------------------- state saves

func (w *world) saveState(op Op) {
	if !w.alive {
		w.stats["skipped-dead"]++
		return
	}
	var err error
	func() {
		defer func() {
			if r := recover(); r != nil {
				w.fail("C10:save:panic", "WriteState panicked: %v\n%s", r, debug.Stack())
				w.alive = false
			}
		}()
		switch {
		case w.mnt != nil && op.Arg%2 == 1:
			err = w.mnt.Close()
		case w.mnt != nil:
			err = w.mnt.WriteState()
		default:
			err = w.sf.WriteState()
		}
	}()
	w.class("save")
	if err != nil {
		w.class("save:error")
		w.tracef("save -> %v", err)
		return
	}
	if w.c.NoState {
		return
	}
	b, rerr := os.ReadFile(w.state)
	if rerr != nil {
		w.tracef("save -> no file: %v", rerr)
		return
	}
	w.saves = append(w.saves, save{data: b, lineage: w.lineage})
	nbits := 0
	for i := 0; i < w.nch; i++ {
		if bit(b, i) {
			nbits++
		}
	}
	if nbits > 0 {
		w.class("save:nonempty")
	}
	w.tracef("save -> %d bytes, %d bits", len(b), nbits)
}

// ---------------------------------------------------------------- restarts

// populated reports whether the cache file content holds chunk i.
func (w *world) populated(cache []byte, i int) bool {
	s := w.spans[i]
	if uint64(len(cache)) < s.Start+s.Len {
		return false
	}
	return bytes.Equal(cache[s.Start:s.Start+s.Len], w.blob[s.Start:s.Start+s.Len])
}

// teardown retires the current instance: waits for its pre-loader, closes the handles.
// quiesce waits until every goroutine the current (or a failed) instance started has ended: a
// restart stands for a new process, the old one - with its background pre-loader - is gone.
// The pre-load workers end once the feeder has walked the index; nothing in this harness
// holds them (no gates). If they do not end in time the case stops without further verdicts.
func (w *world) quiesce() {
	if w.aborted || w.baseSet == false {
		return
	}
	patience := 20 * time.Second
	if w.lostToPanic {
		patience = 2 * time.Second // a panicking read leaves the loader lock held; its workers may never end
	}
	if !sched.QuiesceFor(w.base, patience) {
		w.class("inconclusive:old-instance-still-loading")
		w.aborted = true
	}
}

func (w *world) teardown() {
	if w.sf == nil && w.mnt == nil {
		w.quiesce()
		return
	}
	if w.alive {
		for _, i := range w.marked {
			if w.isNull[i] {
				continue
			}
			// one-byte reads of the chunks an init state marks: reads that race the pre-loader
			w.read("drain", Read{Off: int64(w.spans[i].Start), Len: 1})
		}
	}
	w.quiesce()
	w.hot.Store(false)
	for _, h := range w.handles {
		if h != nil {
			h.Close()
		}
	}
	total, failed := w.store.counts()
	w.stats["gets"] += total - w.preGets
	if w.preEffective && failed > w.preFailed {
		w.class("preload:fault-delivered") // to a pre-load worker or to a read of the pre-loading instance
	}
	w.preEffective = false
	w.handles, w.sf, w.mnt, w.opener, w.reader, w.marked = nil, nil, nil, nil, nil, nil
	w.alive = false
	w.store.retire()
}

func (w *world) wrongLen(base []byte, sel int) []byte {
	b := append([]byte(nil), base...)
	if len(b) != w.expLen {
		b = bytes.Repeat([]byte{0xff}, w.expLen)
	}
	switch sel % 5 {
	case 0:
		if len(b) > 0 {
			return b[:len(b)-1]
		}
		return []byte{0xff}
	case 1:
		return append(b, 0x00)
	case 2:
		return append(b, 0xff)
	case 3:
		if len(b) > 0 {
			return nil
		}
		return []byte{0x01}
	default:
		return append(append(b, b...), 0x01)
	}
}

func (w *world) garbage(seed uint64, sel int) []byte {
	lens := []int{0, w.expLen - 1, w.expLen + 1, w.expLen + 7, 2*w.expLen + 3, 1000}
	for k := 0; k < len(lens); k++ {
		l := lens[(sel+k)%len(lens)]
		if l >= 0 && l != w.expLen {
			return gen.RandBytes(l, seed)
		}
	}
	return gen.RandBytes(w.expLen+1, seed)
}

func (w *world) restart(op Op) {
	w.teardown()
	if w.aborted {
		return
	}
	if !w.baseSet {
		w.base, w.baseSet = runtime.NumGoroutine(), true
	}
	w.stats["restarts"]++

	// ---- cache file
	cacheKind := op.Cache
	st, err := os.Stat(w.cache)
	if err != nil {
		cacheKind = "absent"
	}
	switch cacheKind {
	case "deleted":
		os.Remove(w.cache)
		w.lineage++
	case "truncated":
		if st.Size() == 0 {
			cacheKind = "kept"
			break
		}
		if err := os.Truncate(w.cache, int64(op.Arg)%st.Size()); err != nil {
			panic(err)
		}
		w.lineage++
	case "extended":
		ext := make([]byte, 1+op.Arg%97)
		if op.Arg%2 == 1 {
			gen.Fill(ext, op.Seed|1)
		}
		f, err := os.OpenFile(w.cache, os.O_WRONLY|os.O_APPEND, 0)
		if err != nil {
			panic(err)
		}
		f.Write(ext)
		f.Close()
	case "absent":
	default:
		cacheKind = "kept"
	}
	if cacheKind != "absent" {
		w.class("restart:cache=" + cacheKind)
	}

	// ---- state file
	opt := desync.SparseFileOptions{}
	stateKind := "none"
	if !w.c.NoState {
		opt.StateSaveFile = w.state
		stateKind = op.State
		cur, cerr := os.ReadFile(w.state)
		if cerr != nil && (stateKind == "kept" || stateKind == "" || stateKind == "deleted") {
			stateKind = "absent"
		}
		switch stateKind {
		case "deleted":
			os.Remove(w.state)
		case "earlier": // only saves made for the current generation of the cache file are "its saved state"
			var cand []int
			for i, s := range w.saves {
				if s.lineage == w.lineage {
					cand = append(cand, i)
				}
			}
			if len(cand) == 0 {
				stateKind = "kept"
				if cerr != nil {
					stateKind = "absent"
				}
				break
			}
			dx.WriteFile(w.dir, "state", w.saves[cand[op.Sel%len(cand)]].data)
		case "garbage":
			dx.WriteFile(w.dir, "state", w.garbage(op.Seed, op.Sel))
		case "wronglen":
			dx.WriteFile(w.dir, "state", w.wrongLen(cur, op.Sel))
		case "absent":
		default:
			stateKind = "kept"
		}
		if stateKind != "absent" {
			w.class("restart:state=" + stateKind)
		}
	}

	// ---- what does the restart find on disk? (classification and attribution only)
	w.staleBits, w.withState = nil, false
	cacheBytes, cerr := os.ReadFile(w.cache)
	stateBytes, serr := os.ReadFile(w.state)
	matches := !w.c.NoState && cerr == nil && serr == nil && int64(len(cacheBytes)) == w.L && len(stateBytes) == w.expLen
	if matches {
		nbits := 0
		for i := 0; i < w.nch; i++ {
			if !bit(stateBytes, i) {
				continue
			}
			nbits++
			if !w.populated(cacheBytes, i) {
				if w.staleBits == nil {
					w.staleBits = map[int]bool{}
				}
				w.staleBits[i] = true
			}
		}
		if nbits > 0 {
			w.withState = true
			w.class("restart:state-matches-nonempty")
		}
		if len(w.staleBits) > 0 {
			// reachable without any harness-made inconsistency: cache deleted/truncated, restart
			// (desync resets the cache file but leaves the old state file), restart again
			w.class("restart:state-on-disk-older-than-cache")
		}
	}

	// ---- init state for pre-loading
	var marked []int
	if op.Init != "" {
		n := op.N
		if n < 1 {
			n = 1
		}
		if n > 8 {
			n = 8
		}
		opt.StateInitConcurrency = n
		opt.StateInitFile = w.init
		os.Remove(w.init)
		var content []byte
		kind := op.Init
		if kind == "same" && w.c.NoState {
			kind = "all"
		}
		if kind == "saved" && len(w.saves) == 0 {
			kind = "all"
		}
		switch kind {
		case "saved":
			content = w.saves[op.Sel%len(w.saves)].data
		case "rand":
			content = gen.RandBytes(w.expLen, op.Seed)
		case "wronglen":
			content = w.wrongLen(nil, op.Sel)
		case "missing":
		case "same":
			opt.StateInitFile = w.state
			content, _ = os.ReadFile(w.state)
		default:
			kind = "all"
			content = bytes.Repeat([]byte{0xff}, w.expLen)
		}
		if kind != "missing" && kind != "same" {
			dx.WriteFile(w.dir, "init", content)
		}
		if kind != "missing" && len(content) == w.expLen {
			for i := 0; i < w.nch; i++ {
				if bit(content, i) {
					marked = append(marked, i)
				}
			}
		}
		w.class("preload")
		w.class("preload:init=" + kind)
		if !matches {
			w.class(fmt.Sprintf("preload:n=%d", n))
			if len(marked) > 0 {
				w.class("preload:marked>0")
			}
		}
	}

	// ---- new instance
	w.store.newInstance()
	w.preGets, w.preFailed = w.store.counts()
	w.preEffective = op.Init != "" && !matches && len(marked) > 0
	if op.Init != "" {
		w.hot.Store(true) // pre-load workers run concurrently with what follows
	}
	var nerr error
	func() {
		defer func() {
			if r := recover(); r != nil {
				w.fail("C10:restart:panic", "NewSparseFile (state=%s cache=%s init=%q) panicked: %v\n%s", stateKind, cacheKind, op.Init, r, debug.Stack())
				nerr = fmt.Errorf("panic")
			}
		}()
		if op.Mount {
			w.mnt, nerr = desync.NewSparseMountFS(w.idx, "blob", instStore{w.store, w.store.currentEpoch()}, w.cache, opt)
			if nerr != nil {
				w.mnt = nil
				return
			}
			fs.NewNodeFS(w.mnt, &fs.Options{})
			ch := w.mnt.GetChild("blob")
			if ch == nil {
				nerr = fmt.Errorf("mount root has no child")
				return
			}
			w.opener, _ = ch.Operations().(fs.NodeOpener)
			w.reader, _ = ch.Operations().(fs.NodeReader)
			if w.opener == nil || w.reader == nil {
				nerr = fmt.Errorf("mount node lacks Open/Read")
			}
			w.class("mount")
			return
		}
		w.sf, nerr = desync.NewSparseFile(w.cache, w.idx, instStore{w.store, w.store.currentEpoch()}, opt)
		if nerr != nil {
			w.sf = nil
		}
	}()
	w.tracef("restart state=%s cache=%s init=%q n=%d mount=%v matches=%v stale=%d -> %v", stateKind, cacheKind, op.Init, op.N, op.Mount, matches, len(w.staleBits), nerr)
	if nerr != nil {
		w.class("restart:error")
		w.hot.Store(false)
		w.mnt, w.sf = nil, nil
		return
	}
	w.marked = marked
	nh := 1 + op.Handles%3
	if nh < 1 {
		nh = 1
	}
	for i := 0; i < nh; i++ {
		var h *desync.SparseFileHandle
		var oerr error
		if w.mnt != nil {
			fh, _, errno := w.opener.Open(context.Background(), 0)
			if errno != 0 {
				oerr = errno
			} else {
				h, _ = fh.(*desync.SparseFileHandle)
			}
		} else {
			h, oerr = w.sf.Open()
		}
		if oerr != nil || h == nil {
			w.class("open:error")
			w.tracef("open -> %v", oerr)
			break
		}
		w.handles = append(w.handles, h)
	}
	w.alive = len(w.handles) > 0
}

// ---------------------------------------------------------------- other ops

func (w *world) apply(op Op) {
	if w.aborted {
		return
	}
	switch op.Kind {
	case "read":
		if op.R != nil {
			w.read("read", sanitize(*op.R))
		}
	case "wread":
		if op.R != nil {
			w.wread(op)
		}
	case "conc":
		w.conc(op)
	case "save":
		w.saveState(op)
	case "restart":
		w.restart(op)
	case "fail":
		if op.K <= 0 {
			w.store.FailAll("get", true)
		} else {
			n := w.store.Count("get")
			for i := 1; i <= op.K && i <= 16; i++ {
				w.store.FailAt("get", n+i)
			}
		}
		w.tracef("fail k=%d", op.K)
	case "heal":
		w.store.FailAll("get", false)
		w.tracef("heal")
	case "drop", "put":
		if w.nch == 0 {
			return
		}
		i := op.Chunk % w.nch
		if i < 0 {
			i = -i
		}
		ch := w.idx.Chunks[i]
		if op.Kind == "drop" {
			w.store.Delete(ch.ID)
		} else {
			w.store.Put(ch.ID, w.blob[ch.Start:ch.Start+ch.Size])
		}
		w.tracef("%s chunk %d", op.Kind, i)
	}
}

func (w *world) finish() {
	o := w.o
	switch {
	case w.nch == 0:
		w.class("blob:empty")
	case w.nch == 1:
		w.class("blob:one-chunk")
	}
	if w.nullCnt > 0 {
		w.class("blob:null-chunk")
	}
	if w.c.Tiled {
		w.class("tiled")
	} else {
		w.class("content-defined")
	}
	if w.c.NoState {
		w.class("no-state-file")
	}
	injected, missing := 0, 0
	for _, c := range w.store.Log() {
		if c.Kind != "get" {
			continue
		}
		if c.Fail {
			injected++
		}
	}
	_, failedTotal := w.store.counts()
	missing = failedTotal - injected
	if injected > 0 {
		w.class("fault-delivered")
	}
	for _, f := range w.store.failsSince(0) {
		w.class("fault-kind:" + f.label)
		if wrapsEOF(f.label) {
			w.class("fault-kind:wraps-EOF")
		}
	}
	if missing > 0 {
		w.class("chunk-missing")
	}
	for c := range w.classes {
		o.Class(c)
	}
	sort.Strings(o.Classes)
	o.Nontrivial = w.ntAfterFail || w.ntConc || w.ntAfterState
	o.Key = caseKey(w.c)
	o.Desc = map[string]any{"blob": w.L, "chunks": w.nch, "null": w.nullCnt, "tiled": w.c.Tiled, "max": w.c.Sizes.Max, "ops": len(w.c.Ops),
		"reads": w.stats["reads"], "conc_reads": w.stats["conc-reads"], "restarts": w.stats["restarts"], "saves": len(w.saves),
		"gets": w.stats["gets"], "faults": injected, "missing": missing,
		"after_fail": w.ntAfterFail, "conc_same_chunk": w.ntConc, "after_state": w.ntAfterState, "case": hx.Hash8([]byte(o.Key))}
	o.Observed = map[string]any{"trace": w.trace, "violations_by_sig": w.sigs, "stats": w.stats}
}
