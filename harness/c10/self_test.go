package c10

import (
	"bytes"
	"errors"
	"fmt"
	"io"
	"os"
	"testing"

	"github.com/folbricht/desync"

	"verifharness/internal/gen"
	"verifharness/internal/hx"
)

// TestSelf checks the oracle on synthetic read results (no desync involved) and the two
// facts about the state-file format that classification and attribution rely on.
func TestSelf(t *testing.T) {
	bad := func(format string, a ...any) {
		fmt.Println("SELFTEST-FAILURE: C10: " + fmt.Sprintf(format, a...))
		t.Fatalf(format, a...)
	}
	c := Case{Pieces: enumPieces(), Sizes: gen.Sizes{Min: 1, Avg: 2, Max: 4}, Tiled: true}
	probeD := func(rd Read, res result, before, after map[desync.ChunkID]int, stale map[int]bool, during []failRec) []string {
		var o hx.Outcome
		w := newWorld(c, &o)
		defer w.cleanup()
		w.alive, w.staleBits = true, stale
		w.judge("self", rd, res, before, after, during)
		var sigs []string
		for _, v := range o.Violations {
			sigs = append(sigs, v.Sig)
		}
		return sigs
	}
	probe := func(rd Read, res result, before, after map[desync.ChunkID]int, stale map[int]bool) []string {
		return probeD(rd, res, before, after, stale, nil)
	}
	var o0 hx.Outcome
	w0 := newWorld(c, &o0)
	blob := append([]byte(nil), w0.blob...)
	id0, id4 := w0.idx.Chunks[0].ID, w0.idx.Chunks[4].ID
	if !w0.isNull[1] || w0.isNull[3] || w0.isNull[0] || w0.nullCnt != 1 || w0.L != 16 || w0.nch != 5 {
		bad("layout/null detection wrong: %v", w0.isNull)
	}
	w0.cleanup()
	none := map[desync.ChunkID]int{}
	expect := func(name string, got []string, want ...string) {
		if fmt.Sprint(got) != fmt.Sprint(want) {
			bad("%s: oracle gave %v, expected %v", name, got, want)
		}
	}
	zeros := make([]byte, 16)
	expect("correct whole read", probe(Read{Off: 0, Len: 16}, result{n: 16, got: blob}, none, none, nil))
	expect("correct whole read with EOF", probe(Read{Off: 0, Len: 16}, result{n: 16, got: blob, err: io.EOF}, none, none, nil))
	expect("clipped with EOF", probe(Read{Off: 10, Len: 10}, result{n: 6, got: blob[10:], err: io.EOF}, none, none, nil))
	expect("clipped without EOF", probe(Read{Off: 10, Len: 10}, result{n: 6, got: blob[10:]}, none, none, nil), "C10:read:clipped-without-eof")
	expect("short", probe(Read{Off: 0, Len: 8}, result{n: 7, got: blob[:7]}, none, none, nil), "C10:read:wrong-count")
	expect("error", probe(Read{Off: 0, Len: 8}, result{n: 0, err: errors.New("x")}, none, none, nil))
	expect("past end", probe(Read{Off: 20, Len: 3}, result{n: 0, err: io.EOF}, none, none, nil))
	expect("zero length at end", probe(Read{Off: 16, Len: 0}, result{n: 0}, none, none, nil))
	expect("zeros after error", probe(Read{Off: 0, Len: 3}, result{n: 3, got: zeros[:3]}, map[desync.ChunkID]int{id0: 1}, map[desync.ChunkID]int{id0: 1}, nil), "C10:read:stale-zeros-after-error")
	expect("zeros concurrent", probe(Read{Off: 0, Len: 3}, result{n: 3, got: zeros[:3]}, none, map[desync.ChunkID]int{id0: 1}, nil), "C10:read:zeros-fetch-failed-during-read")
	expect("zeros no error", probe(Read{Off: 12, Len: 4}, result{n: 4, got: zeros[:4]}, map[desync.ChunkID]int{id0: 1}, map[desync.ChunkID]int{id0: 1}, nil), "C10:read:zeros-unpopulated")
	expect("stale bit", probe(Read{Off: 12, Len: 4}, result{n: 4, got: zeros[:4]}, none, none, map[int]bool{4: true}), "C10:restart:state-bit-without-data")
	flipped := append([]byte(nil), blob...)
	flipped[13] ^= 0x40
	expect("wrong byte", probe(Read{Off: 0, Len: 16}, result{n: 16, got: flipped}, none, map[desync.ChunkID]int{id4: 1}, nil), "C10:read:wrong-bytes")
	expect("node short", probe(Read{Off: 0, Len: 8, Node: true}, result{node: true, n: 7, got: blob[:7]}, none, none, nil), "C10:node:wrong-count")
	expect("node error", probe(Read{Off: 0, Len: 8, Node: true}, result{node: true, errno: 5}, none, none, nil))
	// a fetch failed during the read and the answer is a short success
	f0 := []failRec{{id0, "url-wraps-EOF"}}
	expect("node ok+empty after failed fetch", probeD(Read{Off: 0, Len: 3, Node: true}, result{node: true, n: 0}, none, map[desync.ChunkID]int{id0: 1}, nil, f0), "C10:node:fetch-failure-answered-short-ok")
	expect("handle EOF+empty after failed fetch", probeD(Read{Off: 0, Len: 3}, result{n: 0, err: io.EOF}, none, map[desync.ChunkID]int{id0: 1}, nil, f0), "C10:read:fetch-failure-answered-short-ok")
	expect("node error after failed fetch", probeD(Read{Off: 0, Len: 3, Node: true}, result{node: true, errno: 5}, none, map[desync.ChunkID]int{id0: 1}, nil, f0))
	expect("node clipped ok, failure elsewhere", probeD(Read{Off: 12, Len: 10, Node: true}, result{node: true, n: 4, got: blob[12:]}, none, map[desync.ChunkID]int{id0: 1}, nil, f0))
	expect("node short in batch with failure", probeD(Read{Off: 0, Len: 3, Node: true}, result{node: true, n: 0}, none, map[desync.ChunkID]int{id0: 1}, nil, nil), "C10:node:fetch-failure-answered-short-ok")
	for k, want := range map[int]string{fkPlain: "plain", fkFmtEOF: "fmt-wraps-EOF", fkPkgEOF: "pkg-wraps-EOF", fkURLEOF: "url-wraps-EOF",
		fkUnexpEOF: "unexpected-EOF", fkMissing: "chunk-missing", fkInvalid: "chunk-invalid"} {
		err := faultErr(k, "s", 1)
		if got := errLabel(err); got != want {
			bad("fault kind %d (%v) classified %q, expected %q", k, err, got, want)
		}
		if wrapsEOF(want) != errors.Is(err, io.EOF) || err == io.EOF {
			bad("fault kind %d (%v): wraps-EOF classification disagrees with errors.Is", k, err)
		}
	}
	expect("panic at end", probe(Read{Off: 16, Len: 0}, result{panicked: "boom"}, none, none, nil), "C10:read:panic-zero-length-at-end")
	expect("panic elsewhere", probe(Read{Off: 3, Len: 1}, result{panicked: "boom"}, none, none, nil), "C10:read:panic")

	// state-file format: one bit per chunk, LSB first, ceil(chunks/8) bytes (reads in the middle
	// of chunks 0 and 4; what the reads return is judged by TestEnum/TestProp, not here)
	var o hx.Outcome
	w := newWorld(c, &o)
	defer w.cleanup()
	w.restart(Op{Kind: "restart", State: "deleted", Cache: "deleted"})
	w.read("self", Read{Off: 1, Len: 1})
	w.read("self", Read{Off: 13, Len: 2})
	w.saveState(Op{})
	b, err := os.ReadFile(w.state)
	if err != nil || !bytes.Equal(b, []byte{0x11}) {
		bad("state file after loading chunks 0 and 4 of 5 is %x (%v), expected 11: the harness' idea of the state format is out of date", b, err)
	}
	w.restart(Op{Kind: "restart", State: "kept", Cache: "kept"})
	if !w.withState || len(w.staleBits) != 0 {
		bad("restart with own state not recognised: withState=%v stale=%v", w.withState, w.staleBits)
	}
	w.teardown()
}
